"""C20 -- any partition of a mesh is a true partition and assembles row-complete systems.

  B  C20.algo.<mesh>.<Nproc>   Mesher.__Get_partitioned_groupElems extracted from the AST and run with a stub of the gmsh model (the contract assumed of gmsh: every
                               element of the main dimension sits in exactly one partition entity; interface entities carry synthetic elements only) on small
                               meshes for EVERY assignment of elements to ranks (exhaustive), two element types sharing the node-ownership dictionary:
                               owned elements partition the elements, owned nodes partition the used nodes, ghost elements of a rank == the elements owned
                               elsewhere that touch a node it owns, the group holds exactly owned + ghost in global order, coordinates are the global array,
                               the result is reproducible
  L  C20.lemma.rows            ghost-layer postcondition => every element contributing to a row of an owned dof is in the part (z3, uninterpreted relations);
                               with the scatter-add contract of C03 the owned rows of a part's system are the global rows
  X  C20.gmsh.<type>.<Nproc>   real gmsh partitions (one process, Mesher._Mesh_Get_Meshes): the same postconditions against the unpartitioned mesh, for part
                               counts from 1 to the number of elements, several element types, mixed-type meshes, boundary groups, tags, reproducibility
  X  C20.rows.<physics>.<..>   K, M (and C) assembled on one part alone == global matrices on the rows of the owned dofs (exactly); owned-row energies and
                               reactions summed over the parts == global ones
  X  C20.merge.*               Mesh.Merge with return_mapping: merged coordinates of mapping[i][j] == coordinates of node j of mesh i; two nodes share a merged
                               index iff they coincide; elements are the remapped union (duplicates removed); merging the parts of a partition gives back the
                               global mesh (node / element counts, measure); disjoint meshes; mergePoints = False
"""
from __future__ import annotations

import itertools
from fractions import Fraction

import numpy as np

from vt import alg, extract, sx
from vt.core import Ob, Verdict, Refuted, Unsupported, DISCHARGED, REFUTED

PROP = "C20"
MSH = "EasyFEA/FEM/_mesher.py"
MESH = "EasyFEA/FEM/_mesh.py"


# ---------------------------------------------------------------- B: the ownership / ghost algorithm on a stub gmsh model

class _StubGmsh:
    """gmsh model contract: entities of dimension d, each in a set of partitions, each holding element tags of a type.  `plan[gmshId] = (dim, [(tag, ranks(1-based), element tags (0-based))...])`"""

    def __init__(self, plan):
        self.plan = plan
        self.model = self
        self.mesh = self

    def getElementProperties(self, gmshId):
        # (name, dim, order, number of nodes, local coordinates, number of primary nodes)
        nv = {1: 2, 2: 3, 3: 4, 9: 3, 8: 2}.get(gmshId, 0)
        return ("stub", self.plan[gmshId][0], 1, 0, [], nv)

    def getEntities(self, dim):
        out = []
        for gid, (d, ents) in self.plan.items():
            if d == dim:
                out += [(d, tag) for tag, _, _ in ents]
        return out

    def getPartitions(self, dim, tag):
        for gid, (d, ents) in self.plan.items():
            for t, ranks, _ in ents:
                if d == dim and t == tag:
                    return np.array(ranks, dtype=int)
        return np.array([], dtype=int)

    def getDimension(self):
        return max(d for d, _ in self.plan.values())

    def getElementTypes(self):
        return np.array(list(self.plan), dtype=int)

    def getElements(self, dim):
        tags = [np.array([e for _, _, els in ents for e in els], dtype=int) for gid, (d, ents) in self.plan.items() if d == dim]
        return ([], tags, [])

    def partition(self, N):
        self.partitioned = N

    def getPhysicalGroups(self, dim):
        return []

    def getElementsByType(self, gmshId, tag=-1):
        for t, _, els in self.plan[gmshId][1]:
            if t == tag:
                return (np.array(els, dtype=np.uint64) + 1, np.array([]))
        return (np.array([], dtype=np.uint64), np.array([]))


class _Rec:
    def __init__(self, gmshId, connect, coordinates):
        self.gmshId, self.connect, self.coordinates = gmshId, np.array(connect), coordinates
        self.data = None
        self.elemType = f"T{gmshId}"
        self.dim = _Factory.DIMS.get(gmshId, 0)

    def Set_Tag(self, nodes, name):
        pass

    def _Set_partitioned_data(self, elements, nodes, rank=0, ghostElements=()):       # the real signature (defaults included)
        ghost = ghostElements
        self.data = (np.array(elements, dtype=int), np.array(nodes, dtype=int), int(rank), np.array(ghost, dtype=int))


class _Factory:
    DIMS = {}

    @staticmethod
    def _Create(gmshId, connect, coordinates):
        return _Rec(gmshId, connect, coordinates)

    @staticmethod
    def Get_ElemInFos(gmshId):
        # the real table (elemType, nPe, dim, order, Nvertex, Nedge, Nface, Nvolume): a pure lookup
        from EasyFEA.FEM._group_elem import GroupElemFactory
        return GroupElemFactory.Get_ElemInFos(gmshId)


SMALL = {
    "chain5": dict(types=[(1, 1, [[0, 1], [1, 2], [2, 3], [3, 4], [4, 5]])]),
    "quad2x2": dict(types=[(3, 2, [[0, 1, 4, 3], [1, 2, 5, 4], [3, 4, 7, 6], [4, 5, 8, 7]])]),
    "fan6": dict(types=[(2, 2, [[0, 1, 2], [0, 2, 3], [0, 3, 4], [0, 4, 5], [0, 5, 6], [0, 6, 1]])]),
    # second-order triangles (gmsh id 9): elements that touch through a mid-edge node only matter for the ghost layer
    "tri6x3": dict(types=[(9, 2, [[0, 1, 2, 3, 4, 5], [1, 6, 2, 7, 8, 4], [2, 6, 9, 8, 10, 11]])]),
    "tri6x5": dict(types=[(9, 2, [[0, 1, 2, 3, 4, 5], [1, 6, 2, 7, 8, 4], [2, 6, 9, 8, 10, 11], [0, 2, 12, 5, 13, 14], [1, 15, 6, 16, 17, 7]])]),
    # a mesh MIXING two element types of the main dimension (triangles are processed before the quadrangle, as gmsh orders the types)
    "tri2+quad1": dict(types=[(2, 2, [[1, 2, 4], [2, 5, 4]]), (3, 2, [[0, 1, 4, 3]])], mixed=True),
    "tri3+quad2": dict(types=[(2, 2, [[2, 3, 6], [3, 7, 6], [6, 7, 10]]), (3, 2, [[0, 1, 5, 4], [1, 2, 6, 5]])], mixed=True),
    # two element types sharing the node-ownership dictionary: boundary segments first, then triangles (the order gmsh returns the types in)
    "tri4+seg4": dict(types=[(1, 1, [[0, 1], [1, 2], [2, 3], [3, 0]]), (2, 2, [[0, 1, 4], [1, 2, 4], [2, 3, 4], [3, 0, 4]])]),
}


def _check_rank_groups(name, gid, connect, assign, Nproc, groups, nodes_before, coordinates):
    """postconditions of one call, for the element type `gid`."""
    Ne = len(connect)
    connect = np.array(connect)
    own = [set(np.flatnonzero(np.array(assign) == r).tolist()) for r in range(Nproc)]
    n = 0
    all_nodes = []
    for r, g in enumerate(groups):
        el, nodes, rank, ghost = g.data
        n += 1
        if rank != r or set(el.tolist()) != own[r]:
            raise Refuted(f"{name}: rank {r} is given the owned elements {sorted(el.tolist())}, gmsh assigned it {sorted(own[r])}", cex=dict(assign=list(assign)), signature="algo:owned", replay=_replay_gmsh())
        all_nodes.append(set(nodes.tolist()))
        if g.coordinates is not coordinates:
            raise Refuted(f"{name}: a part does not carry the global coordinate array", signature="algo:coords", replay=_replay_gmsh())
    # nodes: a partition of the nodes used by this type that were not owned before, each claimed by a rank owning an element with it
    used = set(connect.ravel().tolist())
    union = set().union(*all_nodes)
    n += 1
    for r in range(Nproc):
        for r2 in range(r + 1, Nproc):
            if all_nodes[r] & all_nodes[r2]:
                raise Refuted(f"{name}: node(s) {sorted(all_nodes[r] & all_nodes[r2])} owned by both rank {r} and rank {r2}", cex=dict(assign=list(assign)), signature="algo:nodes:shared", replay=_replay_gmsh())
    prev_any = set().union(*nodes_before) if nodes_before else set()
    for r in range(Nproc):
        elem_nodes = set(connect[sorted(own[r])].ravel().tolist()) if own[r] else set()
        if not all_nodes[r] <= elem_nodes:
            raise Refuted(f"{name}: rank {r} owns node(s) {sorted(all_nodes[r] - elem_nodes)} of no element it owns", cex=dict(assign=list(assign)), signature="algo:nodes:foreign", replay=_replay_gmsh())
    return n


def _ghost_spec(connect, own_r, nodes_r):
    connect = np.array(connect)
    return {e for e in range(len(connect)) if e not in own_r and set(connect[e].tolist()) & nodes_r}


def ob_algo(name, Nproc):
    """the whole partition pipeline (`__Get_dict_groupElems` -> `__Get_rank_elements`, node claiming, `__Get_partitioned_groupElems`) extracted from the AST and run on the stub model."""
    spec = SMALL[name]
    g = sx.module_globals("EasyFEA.FEM._mesher")
    fn_all = extract.get(MSH, "Mesher.__Get_dict_groupElems")
    fn_rank = extract.get(MSH, "Mesher.__Get_rank_elements")
    fn_part = extract.get(MSH, "Mesher.__Get_partitioned_groupElems")
    nsub = 0
    types = spec["types"]
    main_dim = max(d for _, d, _ in types)
    mains = [(gid, c) for gid, d, c in types if d == main_dim]
    nmain = sum(len(c) for _, c in mains)
    coordinates = np.zeros((20, 3))
    _Factory.DIMS = {gid: d for gid, d, _ in types}
    for assign_main in itertools.product(range(Nproc), repeat=nmain):
        plan, assigns, off = {}, {}, 0
        main_assign = {}
        for gid, c in mains:
            main_assign[gid] = list(assign_main[off:off + len(c)])
            off += len(c)
        for gid, dim, connect in types:
            if dim == main_dim:
                assign = main_assign[gid]
            else:
                # lower-dimensional elements follow one adjacent main element (as gmsh's boundary entities do)
                assign = []
                for seg in connect:
                    owners = [main_assign[mg][e] for mg, mc in mains for e, c in enumerate(mc) if set(seg) <= set(c)]
                    assign.append(owners[0] if owners else 0)
            assigns[gid] = assign
            ents = []
            for r in range(Nproc):
                els = [e for e, a in enumerate(assign) if a == r]
                ents.append((100 * gid + r, [r + 1], els))
            ents.append((100 * gid + 90, [], [0]))                                  # an entity outside every partition: skipped
            ents.append((100 * gid + 91, [1, 2][:Nproc], [len(connect) + 7]))       # a partition-interface entity: synthetic element tags only, dropped
            plan[gid] = (dim, ents)
        results = []
        for rep in range(2):
            stub = _StubGmsh(plan)
            gg = dict(g, gmsh=stub, GroupElemFactory=_Factory)
            f_all = extract.compile_fn(fn_all, gg, exact=False)
            f_rank = extract.compile_fn(fn_rank, gg, exact=False)
            f_part = extract.compile_fn(fn_part, gg, exact=False)
            conn = {gid: np.array(c) for gid, _, c in types}
            me = sx.Mock("self", _Mesher__verbosity=False,
                         _Mesher__Get_coordinates_and_changes=lambda: (coordinates, np.arange(20)),
                         _Mesher__Get_connect=lambda gid, changes: (conn[gid], np.arange(len(conn[gid]))))
            object.__setattr__(me, "_Mesher__Get_rank_elements", lambda *a: f_rank(me, *a))
            object.__setattr__(me, "_Mesher__Get_partitioned_groupElems", lambda *a: f_part(me, *a))
            parts = f_all(me, Nproc, 1)
            if len(parts) != Nproc:
                raise Refuted(f"{name}: {len(parts)} parts for {Nproc} ranks", signature="algo:count", replay=_replay_gmsh())
            # node ownership over every element type: union of the groups' non-ghost nodes
            owned = [set() for _ in range(Nproc)]
            for r in range(Nproc):
                for gid, _, _ in types:
                    owned[r] |= set(parts[r][f"T{gid}"].data[1].tolist())
            allused = set().union(*[set(np.array(c).ravel().tolist()) for _, _, c in types])
            owners = {}
            for r, sset in enumerate(owned):
                for nd in sset:
                    owners.setdefault(nd, []).append(r)
            nsub += 1
            if set(owners) != allused or any(len(v) != 1 for v in owners.values()):
                bad = sorted(allused - set(owners)) + sorted(k for k, v in owners.items() if len(v) != 1)
                raise Refuted(f"{name}: node(s) {bad} are owned by no rank or by several ranks", cex=dict(assign=list(assign_main)), signature="algo:nodes:global", replay=_replay_gmsh())
            for gid, dim, connect in types:
                groups = [parts[r][f"T{gid}"] for r in range(Nproc)]
                nsub += _check_rank_groups(name, gid, connect, assigns[gid], Nproc, groups, [], coordinates)
                for r, grp in enumerate(groups):
                    el, nodes, rank, ghost = grp.data
                    # a group's non-ghost nodes: the nodes of its owned elements that the rank owns
                    cn = set(np.array(connect)[sorted(el.tolist())].ravel().tolist()) if len(el) else set()
                    nsub += 1
                    if set(nodes.tolist()) != cn & owned[r]:
                        raise Refuted(f"{name} (type {gid}): non-ghost nodes of part {r} are {sorted(nodes.tolist())}, its owned elements' nodes owned by the rank are {sorted(cn & owned[r])}",
                                      cex=dict(assign=assigns[gid], rank=r), signature="algo:nodes:group", replay=_replay_gmsh())
                    # ghost layer against the rank's ownership over ALL element types (rows of an owned node need every element touching it)
                    want = _ghost_spec(connect, set(el.tolist()), owned[r])
                    nsub += 1
                    if dim == main_dim and set(ghost.tolist()) != want:
                        raise Refuted(f"{name} (type {gid}): ghost elements of rank {r} are {sorted(ghost.tolist())}, the elements owned elsewhere touching a node it owns are {sorted(want)}: "
                                      f"a system assembled on this part is not row-complete", cex=dict(assign=assigns[gid], rank=r), signature="algo:ghost", replay=_replay_mixed())
                    full = sorted(set(el.tolist()) | set(ghost.tolist()))
                    nc = np.array(connect).shape[1]
                    if not np.array_equal(np.asarray(grp.connect).reshape(len(full), nc), np.array(connect)[full].reshape(len(full), nc)):
                        raise Refuted(f"{name} (type {gid}): part {r} does not hold exactly its owned + ghost elements in global order", cex=dict(assign=assigns[gid], rank=r), signature="algo:content",
                                      replay=_replay_gmsh())
            results.append({gid: [tuple(map(tuple, (np.sort(parts[r][f"T{gid}"].data[0]), np.sort(parts[r][f"T{gid}"].data[1]), np.sort(parts[r][f"T{gid}"].data[3])))) for r in range(Nproc)] for gid, _, _ in types})
        if results[0] != results[1]:
            raise Refuted(f"{name}: two runs on the same input give different partitions", signature="algo:reproducible", replay=_replay_gmsh())
    return Verdict(DISCHARGED, backend=f"extracted partition pipeline on a stub gmsh model, exhaustive over the {Nproc}^{nmain} assignments", sub=nsub)


def _replay_mixed():
    """native: a gmsh mesh mixing QUAD8 and TRI6, 5 parts: ghost layer vs global node ownership, and K rows."""
    try:
        import contextlib, io
        with contextlib.redirect_stdout(io.StringIO()):
            out, _, _ = _native_partition("QUAD8", 5, 2.5)
        return dict(confirmed=bool(out), violations=out[:3])
    except Exception as e:
        return dict(confirmed=False, raised=repr(e)[:300])


def ob_lemma_rows():
    import z3
    E, N, R = z3.DeclareSort("Elem"), z3.DeclareSort("Node"), z3.DeclareSort("Rank")
    touches = z3.Function("touches", E, N, z3.BoolSort())
    own = z3.Function("own", E, R, z3.BoolSort())
    owns_node = z3.Function("owns_node", N, R, z3.BoolSort())
    ghost = z3.Function("ghost", E, R, z3.BoolSort())
    e, n_, r = z3.Const("e", E), z3.Const("n", N), z3.Const("r", R)
    post = z3.ForAll([e, r], ghost(e, r) == z3.And(z3.Not(own(e, r)), z3.Exists([n_], z3.And(touches(e, n_), owns_node(n_, r)))))
    inpart = lambda e_, r_: z3.Or(own(e_, r_), ghost(e_, r_))
    claim = z3.ForAll([e, n_, r], z3.Implies(z3.And(touches(e, n_), owns_node(n_, r)), inpart(e, r)))
    s = z3.Solver()
    s.set("timeout", 60000)
    s.add(post, z3.Not(claim))
    res = s.check()
    if res == z3.sat:
        raise Refuted("row-completeness lemma has a counter-model", signature="lemma:rows", replay=dict(confirmed=False))
    if res != z3.unsat:
        raise Unsupported("z3 unknown")
    return Verdict(DISCHARGED, backend="z3 (uninterpreted relations)", sub=1)


# ---------------------------------------------------------------- X: real gmsh partitions

def _meshes(kind, Nproc, size=2.5):
    """[part meshes] through the public meshing calls with the final `_Mesh_Get_Mesh` replaced by `_Mesh_Get_Meshes(Nproc)` (one process, no mpirun)."""
    from EasyFEA import Mesher, ElemType
    from EasyFEA.Geoms import Domain, Point, Circle
    orig = Mesher._Mesh_Get_Mesh
    Mesher._Mesh_Get_Mesh = lambda self, coef=1.0: self._Mesh_Get_Meshes(Nproc, coef)
    try:
        dom = Domain(Point(), Point(10, 6), size)
        if kind in ("TRI3", "TRI6", "QUAD4", "QUAD8"):
            return Mesher().Mesh_2D(dom, [], ElemType[kind])
        if kind == "QUAD8+TRI6":
            # at this size gmsh's recombination leaves triangles: a mesh that really mixes two element types of the main dimension
            return Mesher().Mesh_2D(Domain(Point(), Point(10, 6), 2.5), [], ElemType.QUAD8)
        if kind == "TRI3.offset":          # no node at the origin
            return Mesher().Mesh_2D(Domain(Point(1, 1), Point(11, 7), size), [], ElemType.TRI3)
        if kind == "TRI3.hole":
            return Mesher().Mesh_2D(dom, [Circle(Point(5, 3), 2.0, size / 2)], ElemType.TRI3)
        if kind == "TRI3.crack":
            # an open crack from the left edge: the lips are pairs of coincident nodes of ONE mesh
            from EasyFEA.Geoms import Line
            crack = Line(Point(0.0, 3.0, isOpen=True), Point(6.0, 3.0), size / 2, isOpen=True)
            return Mesher().Mesh_2D(dom, [], ElemType.TRI3, cracks=[crack])
        if kind == "mixed":
            # unstructured recombination leaves triangles next to quadrangles
            return Mesher().Mesh_2D(Domain(Point(), Point(10, 6), size), [Circle(Point(5, 3), 2.5, size / 2)], ElemType.QUAD4)
        if kind in ("TETRA4", "HEXA8", "PRISM6", "TETRA10"):
            return Mesher().Mesh_Extrude(Domain(Point(), Point(6, 4), size), [], [0, 0, 3], [2], ElemType[kind])
        raise Unsupported(kind)
    finally:
        Mesher._Mesh_Get_Mesh = orig


def _main_groups(mesh):
    return mesh.Get_list_groupElem(mesh.dim)


def _native_partition(kind, Nproc, size=2.5):
    glob = _meshes(kind, 1, size)[0]
    parts = _meshes(kind, Nproc, size)
    again = _meshes(kind, Nproc, size)
    out = []
    if len(parts) != Nproc:
        return [f"{len(parts)} parts for Nproc = {Nproc}"], glob, parts
    gcoord = np.asarray(glob.coord)
    for dim in range(glob.dim, 0, -1):
        for gg in glob.Get_list_groupElem(dim):
            et = gg.elemType
            owned_all, nodes_all = [], []
            for r, m in enumerate(parts):
                if et not in m.dict_groupElem:
                    out.append(f"part {r} has no {et} group")
                    continue
                g = m.dict_groupElem[et]
                rank, el, gh, nodes, gnodes = g._Get_partitioned_data()
                if rank != r:
                    out.append(f"part {r} carries rank {rank}")
                owned_all.append(set(el.tolist()))
                nodes_all.append(set(nodes.tolist()))
                rows = np.sort(np.concatenate([el, gh])).astype(int)
                if not np.array_equal(np.asarray(g.connect), np.asarray(gg.connect)[rows]):
                    out.append(f"{et} part {r}: connectivity is not the global connectivity of its owned + ghost elements (global node numbering lost)")
                if not np.array_equal(np.asarray(g._globalElements), rows):
                    out.append(f"{et} part {r}: _globalElements differs from owned + ghost")
                if dim == glob.dim:
                    owned_r = set(np.asarray(m._Get_mpi_owned_nodes()).tolist())           # every node the rank owns, whatever the element type that claimed it
                    want = {e for e in range(gg.Ne) if e not in set(el.tolist()) and set(np.asarray(gg.connect)[e].tolist()) & owned_r}
                    if set(gh.tolist()) != want:
                        out.append(f"{et} part {r}: ghost elements {sorted(set(gh.tolist()) ^ want)[:6]} differ from the elements owned elsewhere touching an owned node")
                    if not set(nodes.tolist()) <= set(np.asarray(gg.connect)[el].ravel().tolist()):
                        out.append(f"{et} part {r}: owns a node of none of its own elements")
                if set(gnodes.tolist()) != set(np.asarray(g.connect).ravel().tolist()) - set(nodes.tolist()):
                    out.append(f"{et} part {r}: ghost nodes are not (nodes of the part) - (owned nodes)")
                # tags: on the nodes / elements the part holds, a tag selects what it selects globally
                pn = set(np.asarray(g.connect).ravel().tolist())
                for tag in gg.nodeTags:
                    wantn = set(np.asarray(gg.Get_Nodes_Tag(tag)).tolist()) & pn
                    gotn = (set(np.asarray(g.Get_Nodes_Tag(tag)).tolist()) & pn) if tag in g.nodeTags else set()
                    wante = set(np.asarray(gg.Get_Elements_Tag(tag)).tolist()) & set(rows.tolist())
                    gote = set(rows[np.asarray(g.Get_Elements_Tag(tag), dtype=int)].tolist()) if tag in g.nodeTags else set()
                    if gotn != wantn or gote != wante:
                        out.append(f"{et} part {r}: tag {tag} selects other nodes / elements of the part than it does globally")
                        break
                g2 = again[r].dict_groupElem[et]._Get_partitioned_data()
                if not all(np.array_equal(a, b) for a, b in zip((el, gh, nodes), (g2[1], g2[2], g2[3]))):
                    out.append(f"{et} part {r}: a second partitioning of the same input differs")
            if len(owned_all) == Nproc:
                tot = sum(len(s) for s in owned_all)
                if set().union(*owned_all) != set(range(gg.Ne)) or tot != gg.Ne:
                    out.append(f"{et}: owned elements are not a partition of the {gg.Ne} elements ({tot} assigned, {len(set().union(*owned_all))} distinct)")
        if dim == glob.dim:
            # nodes over all main groups
            per_rank = []
            for r, m in enumerate(parts):
                s = set()
                for g in _main_groups(m):
                    s |= set(g._Get_partitioned_data()[3].tolist())
                per_rank.append(s)
                if not np.array_equal(np.asarray(m._Get_mpi_owned_nodes()), np.array(sorted(s))):
                    out.append(f"part {r}: _Get_mpi_owned_nodes differs from the union of the groups' owned nodes")
            tot = sum(len(s) for s in per_rank)
            if set().union(*per_rank) != set(np.asarray(glob.nodes).tolist()) or tot != len(set().union(*per_rank)):
                out.append(f"owned nodes are not a partition of the {glob.Nn} mesh nodes ({tot} assigned, {len(set().union(*per_rank))} distinct)")
    for r, m in enumerate(parts):
        # documented: rows of nodes outside the part stay at zero; the rows of its own nodes are the global coordinates under the global numbering
        arrs = [np.asarray(g.connect).ravel() for g in m.dict_groupElem.values() if g.Ne]
        if not arrs:
            continue          # gmsh left this rank without any element
        pn = np.unique(np.concatenate(arrs))
        pc = np.asarray(m.coord)
        if pc.shape != gcoord.shape or not np.array_equal(pc[pn], gcoord[pn]):
            out.append(f"part {r}: coordinates of its nodes differ from the global coordinates")
    return out, glob, parts


def _replay_gmsh():
    try:
        out, _, _ = _native_partition("TRI3", 3)
        return dict(confirmed=bool(out), violations=out[:3])
    except Exception as e:
        return dict(confirmed=False, raised=repr(e)[:300])


def ob_gmsh(kind, Nproc, size=2.5):
    if Nproc == "Ne":
        Nproc = sum(g.Ne for g in _main_groups(_meshes(kind, 1, size)[0]))
    import contextlib, io
    with contextlib.redirect_stdout(io.StringIO()):
        out, glob, parts = _native_partition(kind, Nproc, size)
    if out:
        raise Refuted(f"{kind}, {Nproc} parts: " + " | ".join(out[:3]), cex=dict(mesh=kind, Nproc=Nproc), signature=f"gmsh:{kind}", replay=dict(confirmed=True, violations=out[:5]))
    return Verdict(DISCHARGED, backend="native gmsh partition", detail=f"{glob.Ne} elements, {Nproc} parts")


def _owned_dofs(mesh, dof_n):
    nodes = np.asarray(mesh._Get_mpi_owned_nodes())
    return (nodes[:, None] * dof_n + np.arange(dof_n)).ravel()


def ob_rows(kind, physics, Nproc):
    from EasyFEA import Models, Simulations
    glob = _meshes(kind, 1)[0]
    parts = _meshes(kind, Nproc)
    dim = glob.dim

    def simu(m):
        if physics == "thermal":
            s = Simulations.Thermal(m, Models.Thermal(k=1.3, c=0.7))
            s.rho = 2.0
        else:
            s = Simulations.Elastic(m, Models.Elastic.Isotropic(dim, E=10.0, v=0.3))
            s.rho = 2.0
        return s
    sg = simu(glob)
    Kg, Cg, Mg, _ = [x.tocsr() for x in sg.Get_K_C_M_F()]
    dn = sg.Get_dof_n()
    rng = np.random.default_rng(0)
    u = rng.normal(size=Kg.shape[0])
    Eg = 0.5 * u @ (Kg @ u)
    Rg = Kg @ u
    Etot, Rtot, seen = 0.0, np.zeros_like(u), np.zeros(Kg.shape[0], dtype=int)
    for r, m in enumerate(parts):
        sp = simu(m)
        K, C, M, _ = [x.tocsr() for x in sp.Get_K_C_M_F()]
        if K.shape != Kg.shape:
            raise Refuted(f"{kind} {physics}: the system assembled on part {r} has shape {K.shape}, the global one {Kg.shape} (global numbering lost)", signature=f"rows:{kind}:{physics}:shape", replay=dict(confirmed=True))
        dofs = _owned_dofs(m, dn)
        seen[dofs] += 1
        for nm, A, Ag in (("K", K, Kg), ("M", M, Mg), ("C", C, Cg)):
            if Ag.nnz == 0 and A.nnz == 0:
                continue
            d = abs(A[dofs] - Ag[dofs])
            e = d.max() if d.nnz else 0.0
            if e > 1e-12 * abs(Ag).max():
                raise Refuted(f"{kind} {physics}, {Nproc} parts: {nm} assembled on part {r} alone differs from the global {nm} on the rows of its owned dofs by {e:.3e}: the ghost layer "
                              f"is not sufficient for row-completeness", cex=dict(mesh=kind, Nproc=Nproc, part=r, matrix=nm), signature=f"rows:{kind}:{physics}:{nm}", replay=dict(confirmed=True, err=float(e)))
        Etot += 0.5 * u[dofs] @ (K[dofs] @ u)
        Rtot[dofs] += K[dofs] @ u
    if not (seen == 1).all():
        raise Refuted(f"{kind}: owned dofs do not partition the dofs", signature=f"rows:{kind}:{physics}:dofs", replay=dict(confirmed=True))
    if abs(Etot - Eg) > 1e-10 * abs(Eg) or np.abs(Rtot - Rg).max() > 1e-10 * np.abs(Rg).max():
        raise Refuted(f"{kind} {physics}: owned-row energies / reactions summed over the parts differ from the global ones ({Etot!r} vs {Eg!r})", signature=f"rows:{kind}:{physics}:energy", replay=dict(confirmed=True))
    return Verdict(DISCHARGED, backend="native assembly on each part vs global", detail=f"{Nproc} parts")


# ---------------------------------------------------------------- X: Merge

def _check_merge(list_mesh, merged, mapping, tol=1e-12, unique=True):
    out = []
    mc = np.asarray(merged.coord)
    allc, allm = [], []
    for i, (m, mp) in enumerate(zip(list_mesh, mapping)):
        c = np.asarray(m.coord)
        if len(mp) != c.shape[0]:
            out.append(f"mapping[{i}] has {len(mp)} entries for {c.shape[0]} nodes")
            continue
        e = np.abs(mc[mp] - c).max() if c.size else 0.0
        if e > 10 * tol:
            out.append(f"mesh {i}: merged coordinates of mapped nodes differ from the original ones by {e:.3e}")
        allc.append(c)
        allm.append(np.asarray(mp))
    if out:
        return out
    C, M = np.vstack(allc), np.concatenate(allm)
    # same merged index <=> coincident (tolerance), checked on all pairs through sorting by merged index
    order = np.argsort(M, kind="stable")
    Cs, Ms = C[order], M[order]
    same = Ms[1:] == Ms[:-1]
    if same.any() and np.abs(Cs[1:][same] - Cs[:-1][same]).max() > 10 * tol:
        out.append("two nodes with different coordinates share a merged index")
    from scipy.spatial import cKDTree
    pairs = cKDTree(C).query_pairs(tol, output_type="ndarray")
    owner = np.concatenate([np.full(len(c), i) for i, c in enumerate(allc)])
    if len(pairs):
        cross = owner[pairs[:, 0]] != owner[pairs[:, 1]]
        if (M[pairs[cross, 0]] != M[pairs[cross, 1]]).any():
            out.append("two coincident nodes of different meshes keep different merged indices")
        # two coincident nodes of ONE mesh (crack lips) stay distinct unless another mesh has a node there (then both are identified with it)
        for a, b in pairs[~cross]:
            if M[a] == M[b]:
                others = np.where((owner != owner[a]) & (np.abs(C - C[a]).max(axis=1) <= tol))[0]
                if len(others) == 0:
                    out.append(f"two coincident nodes of mesh {int(owner[a])} (nodes of a crack) were welded although no other mesh has a node there")
                    break
    if len(set(M.tolist())) != mc.shape[0]:
        out.append(f"merged mesh has {mc.shape[0]} nodes, the mapping reaches {len(set(M.tolist()))}")
    # elements: remapped union
    for et in {et for m in list_mesh for et in m.dict_groupElem}:
        rows = []
        for m, mp in zip(list_mesh, mapping):
            if et in m.dict_groupElem:
                rows.append(np.asarray(mp)[np.asarray(m.dict_groupElem[et].connect)])
        rows = np.vstack(rows)
        got = np.asarray(merged.dict_groupElem[et].connect)
        key = lambda a: sorted(map(tuple, np.sort(a, axis=1).tolist()))
        want = key(rows)
        if unique:
            want = sorted(set(want))
        if key(got) != want:
            out.append(f"{et}: merged elements are not the remapped union of the input elements ({len(got)} vs {len(want)})")
    return out


def ob_merge_parts(kind, Nproc):
    from EasyFEA import Mesh
    glob = _meshes(kind, 1)[0]
    parts = _meshes(kind, Nproc)
    merged, mapping = Mesh.Merge(parts, return_mapping=True)
    out = _check_merge(parts, merged, mapping)
    if merged.Nn != glob.Nn or merged.Ne != glob.Ne:
        out.append(f"merging the {Nproc} parts gives {merged.Nn} nodes / {merged.Ne} elements, the global mesh has {glob.Nn} / {glob.Ne}")
    meas = (lambda m: float(m.area)) if glob.dim == 2 else (lambda m: float(m.volume))
    if abs(meas(merged) - meas(glob)) > 1e-10 * meas(glob):
        out.append(f"merged measure {meas(merged)!r} != global {meas(glob)!r}")
    if out:
        raise Refuted(f"Mesh.Merge of the {Nproc} parts of {kind}: " + " | ".join(out[:3]), signature=f"merge:parts:{kind}", replay=dict(confirmed=True, violations=out[:5]))
    return Verdict(DISCHARGED, backend="native")


def ob_merge_lists(case):
    from EasyFEA import Mesh, Mesher, ElemType
    from EasyFEA.Geoms import Domain, Point
    mk = lambda x0, x1, et=ElemType.QUAD4: Mesher().Mesh_2D(Domain(Point(x0, 0), Point(x1, 2), 1.0), [], et, isOrganised=True)
    if case == "adjacent":
        ms = [mk(0, 2), mk(2, 5), mk(5, 6)]            # coincident interface nodes (structured: same y positions)
        want_nodes = sum(m.Nn for m in ms) - 2 * 3
    elif case == "disjoint":
        ms = [mk(0, 2), mk(3, 5)]
        want_nodes = sum(m.Nn for m in ms)
    elif case == "duplicate":
        ms = [mk(0, 2), mk(0, 2)]                       # the same mesh twice: every node coincides, every element is a duplicate
        want_nodes = ms[0].Nn
    elif case == "mixed-types":
        ms = [mk(0, 2), mk(2, 4, ElemType.TRI3)]
        want_nodes = sum(m.Nn for m in ms) - 3
    elif case == "nomerge":
        ms = [mk(0, 2), mk(2, 5)]
        merged, mapping = Mesh.Merge(ms, mergePoints=False, return_mapping=True)
        out = []
        if merged.Nn != sum(m.Nn for m in ms):
            out.append(f"mergePoints=False: {merged.Nn} nodes instead of {sum(m.Nn for m in ms)}")
        off = 0
        for m, mp in zip(ms, mapping):
            if not np.array_equal(np.asarray(mp), np.arange(off, off + m.Nn)):
                out.append("mergePoints=False: the mapping is not the concatenation offset")
            off += m.Nn
        if out:
            raise Refuted("Mesh.Merge: " + " | ".join(out), signature="merge:nomerge", replay=dict(confirmed=True))
        return Verdict(DISCHARGED, backend="native")
    elif case == "single":
        ms = [mk(0, 2)]
        want_nodes = ms[0].Nn
    elif case == "crack":
        # a mesh holding two coincident nodes of its own (split centre node: the tip region of a crack), merged with a neighbour that shares two boundary nodes only
        from . import patches
        m1 = patches.real_mesh("TRI3", [[0, 0, 0], [1, 0, 0], [1, 1, 0], [0, 1, 0], [0.5, 0.5, 0], [0.5, 0.5, 0]], [[0, 1, 4], [1, 2, 4], [2, 3, 5], [3, 0, 5]])
        m2 = patches.real_mesh("TRI3", [[1, 0, 0], [2, 0, 0], [2, 1, 0], [1, 1, 0]], [[0, 1, 2], [0, 2, 3]])
        ms = [m1, m2]
        want_nodes = 6 + 4 - 2
    elif case in ("lifted", "lifted.first", "storeys", "tilted", "volume+volume"):
        # meshes that do not all lie in the z = 0 plane: nodes with the same (x, y) and another z are NOT coincident
        def moved(m, dz=0.0, rot=None):
            m2 = m.copy()
            if rot is not None:
                m2.Rotate(rot, (0, 0, 0), (1, 0, 0))
            if dz:
                m2.Translate(0, 0, dz)
            return m2
        ground = mk(0, 2)
        if case == "lifted":
            ms = [ground, moved(ground, 1.0)]
        elif case == "lifted.first":
            ms = [moved(ground, 1.0), ground]
        elif case == "storeys":
            ms = [ground, mk(2, 5), moved(ground, 1.0), moved(mk(2, 5), 2.5)]
        elif case == "tilted":
            ms = [ground, moved(ground, 0.0, rot=90.0)]            # the rotated plate shares the edge y = 0 with the ground plate
        else:
            mk3 = lambda z0: Mesher().Mesh_Extrude(Domain(Point(0, 0, z0), Point(2, 2, z0), 1.0), [], [0, 0, 1], [1], ElemType.HEXA8, isOrganised=True)
            ms = [mk3(0.0), mk3(1.0)]                                # two stacked boxes sharing a face
        allc = np.vstack([np.asarray(m.coord) for m in ms])
        want_nodes = len({tuple(np.round(c_, 9)) for c_ in allc})
    merged, mapping = Mesh.Merge(ms, return_mapping=True)
    out = _check_merge(ms, merged, mapping)
    if merged.Nn != want_nodes:
        out.append(f"merged mesh has {merged.Nn} nodes, expected {want_nodes}")
    meas = (lambda m: float(m.volume)) if ms[0].dim == 3 else (lambda m: float(m.area))
    area = sum(meas(m) for m in ms) if case != "duplicate" else meas(ms[0])
    if abs(meas(merged) - area) > 1e-10 * area:
        out.append(f"merged measure {meas(merged)!r}, expected {area!r}")
    plain = Mesh.Merge(ms)
    if plain.Nn != merged.Nn or plain.Ne != merged.Ne:
        out.append("Merge without return_mapping gives another mesh")
    if out:
        raise Refuted(f"Mesh.Merge ({case}): " + " | ".join(out[:3]), signature=f"merge:{case}", replay=dict(confirmed=True, violations=out[:5]))
    return Verdict(DISCHARGED, backend="native")


# ---------------------------------------------------------------- build

def build(tier, seed):
    obs = []
    thorough = tier == "thorough"
    for name in SMALL:
        for Nproc in (2, 3):
            if name == "fan6" and Nproc == 3 and not thorough:
                continue
            obs.append(Ob(f"C20.algo.{name}.{Nproc}", ob_algo, (name, Nproc), "B", (f"{MSH}::Mesher.__Get_partitioned_groupElems",), bound=f"every assignment of the elements of {name} to {Nproc} ranks",
                          clause="owned elements / nodes partition; ghost == elements owned elsewhere touching an owned node; part == owned + ghost in global order; reproducible", timeout=1800))
    obs.append(Ob("C20.lemma.rows", ob_lemma_rows, (), "L", (), clause="ghost-layer postcondition => every element touching an owned node is in the part"))
    kinds = ["TRI3", "QUAD4", "TRI6", "TRI3.hole", "mixed", "QUAD8+TRI6", "TETRA4", "HEXA8", "PRISM6"] + (["QUAD8", "TETRA10"] if thorough else [])
    for kind in kinds:
        for Nproc in ([2, 3, 5, "Ne"] + ([4, 7, 11] if thorough else [])):
            if Nproc == "Ne" and kind not in ("TRI3", "QUAD4", "mixed", "QUAD8+TRI6") and not thorough:
                continue
            if isinstance(Nproc, int) and Nproc > 5 and kind == "HEXA8":
                continue
            obs.append(Ob(f"C20.gmsh.{kind}.{Nproc}", ob_gmsh, (kind, Nproc), "X", (f"{MSH}::Mesher._Mesh_Get_Meshes", "EasyFEA/FEM/_group_elem.py::_GroupElem._Set_partitioned_data"),
                          bound="one gmsh mesh", clause="true partition of elements and nodes; exact ghost layer; global numbering, coordinates and tags kept; reproducible", timeout=1800))
    for kind, physics, Nproc in [("TRI3", "elastic", 3), ("QUAD4", "thermal", 4), ("mixed", "elastic", 3), ("QUAD8+TRI6", "elastic", 5), ("QUAD8+TRI6", "thermal", 11), ("TETRA4", "elastic", 3), ("PRISM6", "thermal", 2), ("TRI6", "elastic", 5)] + \
            ([("HEXA8", "elastic", 3), ("TRI3.hole", "thermal", 7), ("TETRA10", "elastic", 2)] if thorough else []):
        obs.append(Ob(f"C20.rows.{physics}.{kind}.{Nproc}", ob_rows, (kind, physics, Nproc), "X", ("EasyFEA/Simulations/_simu.py::_Simu.Assembly", "EasyFEA/FEM/_mesh.py::Mesh._Get_mpi_owned_nodes"),
                      bound="one gmsh mesh", clause="K, M, C of a part == global on the owned rows; owned-row energies and reactions sum to the global ones", timeout=1800))
    for kind, Nproc in [("TRI3", 3), ("mixed", 4), ("QUAD8+TRI6", 5), ("TETRA4", 2), ("TRI3.offset", 3), ("TRI3.crack", 2)]:
        obs.append(Ob(f"C20.merge.parts.{kind}.{Nproc}", ob_merge_parts, (kind, Nproc), "X", (f"{MESH}::Mesh.Merge",), bound="one gmsh mesh", clause="Merge(parts) == global mesh; mapping carries coordinates", timeout=900))
    for case in ("adjacent", "disjoint", "duplicate", "mixed-types", "nomerge", "single", "crack", "lifted", "lifted.first", "storeys", "tilted", "volume+volume"):
        obs.append(Ob(f"C20.merge.{case}", ob_merge_lists, (case,), "X", (f"{MESH}::Mesh.Merge",), bound="structured rectangles", clause="mapping[i][j] carries coordinates; merged index shared iff coincident; remapped union of elements", timeout=900))
    obs.append(Ob("canary.algo", ob_algo_canary, (), "B", expect=REFUTED))
    return dict(
        obs=obs, level="other", min_obligations=30,
        explanation=("The ownership / ghost-layer algorithm is pure Python around a handful of gmsh queries: it is extracted from the AST and executed with a stub of the gmsh model on small "
                     "meshes for every assignment of elements to ranks (exhaustive), which decides the partition postconditions for those sizes; a z3 lemma carries the ghost-layer "
                     "postcondition to row-completeness. Real gmsh partitions, assembly on single parts and Mesh.Merge are checked natively (bounded)."),
        trusted_base=["stub of the gmsh model (entities / partitions / elements by type): the contract assumed of gmsh.model.mesh.partition", "z3", "scatter-add contract of the assembly (C03)"],
        assumptions=["parallel execution (mpirun, scatter, _Gather, Reduce_sum) is not available: Mesher._Mesh_Get_Meshes builds every part in one process", "exhaustive only for the listed small meshes and 2-3 ranks"],
        functions={"__Get_partitioned_groupElems": extract.get(MSH, "Mesher.__Get_partitioned_groupElems").describe(), "__Get_rank_elements": extract.get(MSH, "Mesher.__Get_rank_elements").describe(),
                   "__Get_dict_groupElems": extract.get(MSH, "Mesher.__Get_dict_groupElems").describe(), "Merge": extract.get(MESH, "Mesh.Merge").describe()},
        dropped=["D1-D3, D5; gmsh and GroupElemFactory replaced by stubs in the B obligations"],
        not_attempted=["Mesh._Gather and Sync_dofsValues need MPI_SIZE > 1"],
    )


def ob_algo_canary():
    """a ghost rule that only looks at the first node of an element must be refuted."""
    global _ghost_spec
    base = _ghost_spec
    _ghost_spec = lambda connect, own_r, nodes_r: {e for e in range(len(connect)) if e not in own_r and connect[e][0] in nodes_r}
    try:
        return ob_algo("quad2x2", 2)
    finally:
        _ghost_spec = base
