"""Contracts of the element-integral chain, decided at the GENERIC element e and integration point p
(`vt.gen`): every obligation here holds for ALL numbers of elements Ne and ALL numbers of
integration points nPg; tensor extents (dim, nPe, dof_n) are enumerated over the element library.

    integrand factors   _GroupElem.Get_weightedJacobian_e_pg / Get_leftDispPart_e_pg / Get_DiffusePart_e_pg /
                        Get_ReactionPart_e_pg / Get_SourcePart_e_pg / Get_N_pg_rep / Get_B_e_pg / Get_dN_e_pg /
                        Get_F_e_pg / Get_invF_e_pg / Get_jacobian_e_pg
    operators           Bilinear.GradUGradV / GradU_A_GradV / UV / LinearizedElasticity / MassAlongNormal /
                        BeamBending / BeamShear / BeamStiffness / BeamMass ; Linear.V / InternalForce ;
                        FeArray.broadcast (compiled from the AST, not modelled)
    simulations         Elastic / Thermal .Construct_local_matrix_system

A caller is executed against its callees' *contracts*: a callee is a stub returning fresh atoms (an
arbitrary array of the callee's result shape) or the expression its own obligation establishes.
`FeArray` is re-assembled from its own source on generic arrays (fe_real): T, @, dot, ddot, _align, integrate, broadcast, asfearray run as written.  Used by C01, C02, C07, C09, C12, C13, C16, C17, C18.
"""
from __future__ import annotations

from fractions import Fraction

import numpy as np

from vt import extract, sx, gen
from vt.gen import NE, NPG, GA, GFe
from vt.core import Ob, Verdict, Refuted, Unsupported, DISCHARGED, REFUTED

F = Fraction
GP = "EasyFEA/FEM/_group_elem.py"
LP = "EasyFEA/FEM/_linalg.py"
BP = "EasyFEA/FEM/Operators/Bilinear.py"
LIP = "EasyFEA/FEM/Operators/Linear.py"
BACKEND = "generic-point execution of the extracted AST; normal form in QQ(atoms); formal Int over symbolic axes"

# (dim, nPe) of the Lagrange library; quick keeps the small ones
SHAPES_ALL = [(1, 2), (1, 3), (1, 4), (1, 5), (2, 3), (2, 6), (2, 10), (2, 15), (2, 4), (2, 8), (2, 9),
              (3, 4), (3, 10), (3, 8), (3, 20), (3, 27), (3, 6), (3, 15), (3, 18)]
SHAPES_QUICK = [(1, 2), (1, 3), (2, 3), (2, 4), (2, 6), (3, 4), (3, 6)]


def shapes(tier, maxdofs=None):
    s = SHAPES_ALL if tier == "thorough" else SHAPES_QUICK
    if maxdofs:
        s = [x for x in s if x[0] * x[1] <= maxdofs]
    return s


# ---------------------------------------------------------------------------------------------- environment

class _Timo:      # stands for Elems._beam._Timoshenko in isinstance tests
    pass


class _EB:
    pass


FE_SKIP = ("__new__", "__array_finalize__", "__array_ufunc__", "__array_function__", "_make_reducer")
FE_ASSEMBLED: dict = {}


def fe_real(sp, NPs):
    """`FeArray` re-assembled from its OWN SOURCE on top of vt.gen.GFeBase: every method of the real class (T, __matmul__, __rmatmul__, dot, ddot, _dot_subscript,
    _ddot_subscript, _align, integrate, reshape, _get_idx-free _assemble excepted, asfearray, broadcast, zeros, ones, _shape, _ndim, ...) runs as written, on generic arrays.
    Dropped: the numpy protocol hooks (__new__, __array_finalize__, __array_ufunc__, __array_function__) and the loop generating the reducer wrappers -- what they
    do for elementwise operators and sums is the part modelled in GFeBase / GA (and checked against the real class by the self-check and by C12)."""
    import ast
    import copy
    import hashlib
    src, tree = extract.read(LP)
    cls = extract.find_class(tree, "FeArray")
    lines = src.splitlines()
    body = []
    for n in cls.body:
        if isinstance(n, ast.FunctionDef) and n.name not in FE_SKIP and n.name != "_assemble" and n.name != "_get_idx":
            m = copy.deepcopy(n)
            extract._annotate_float_sources(m, lines)
            decs = [d for d in m.decorator_list if ast.unparse(d) in ("property", "staticmethod", "classmethod", "lru_cache(maxsize=16)") or ast.unparse(d).endswith(".setter")]
            m = extract._Strip(True).visit(m)
            m.decorator_list = decs
            body.append(m)
    cdef = ast.ClassDef(name="FeArray", bases=[ast.Name(id="__GFeBase__", ctx=ast.Load())], keywords=[ast.keyword(arg="metaclass", value=ast.Name(id="__FeMeta__", ctx=ast.Load()))],
                        body=body, decorator_list=[], type_params=[])
    mod = ast.Module(body=[cdef], type_ignores=[])
    ast.fix_missing_locations(mod)
    g = sx.module_globals("EasyFEA.FEM._linalg", np=NPs)
    g = extract.compile_module_functions(LP, g, names=["_Evaluate", "_Base", "_KeepsFeAxes"])
    g["np"] = NPs
    g["__GFeBase__"], g["__FeMeta__"] = gen.GFeBase, _FeMeta
    exec(compile(mod, f"<re-assembled {LP}::FeArray on generic arrays>", "exec"), g)
    Fe = g["FeArray"]
    g["FeArray"] = Fe
    seg = ast.get_source_segment(src, cls) or ""
    FE_ASSEMBLED[f"{LP}::FeArray"] = dict(file=LP, cls="FeArray", lines=[cls.lineno, cls.end_lineno], sha256=hashlib.sha256(seg.encode()).hexdigest(),
                                         methods=[m.name for m in body], dropped=list(FE_SKIP) + ["_assemble", "_get_idx", "reducer wrappers (sum, prod, mean, ...)"])
    Fe._assemble = gen.GFe._assemble          # contract of _assemble / _get_idx (they index with np.arange(Ne), which has no generic counterpart)
    return Fe


class _FeMeta(type):
    def __instancecheck__(cls, inst):
        return isinstance(inst, GA) and bool(getattr(inst, "fe", False))


def env(sp, modname, **over):
    NPs = gen.NP(sp)
    FeArray = fe_real(sp, NPs)
    sp.fe_class = FeArray
    g = sx.module_globals(modname, np=NPs, FeArray=FeArray, _Timoshenko=_Timo, _EulerBernoulli=_EB)
    g.update(over)
    return g, NPs, FeArray


def fn_of(path, qual, g):
    return extract.compile_fn(extract.get(path, qual), g)


def module_fns(path, g, names):
    return extract.compile_module_functions(path, g, names=names)


def check(got, want, what, sig, replay=None):
    d = gen.first_difference(got, want)
    if d is not None:
        r = None
        if replay is not None:
            try:
                r = replay()
            except Exception as e:     # a replay that cannot run confirms nothing
                r = dict(confirmed=False, replay_error=repr(e))
        raise Refuted(f"{what}: {d}", signature=sig, replay=r)


def _guard(f):
    """a ShapeError of the model means the real numpy refuses generic extents: the function fails on valid input"""
    def run(*a, **k):
        try:
            return f(*a, **k)
        except gen.ShapeError as e:
            raise Refuted(f"shape error for generic extents: {e}", signature="shape")
    return run


# ---------------------------------------------------------------------------------------------- native replays

def _mesh(dim, nPe):
    from . import patches
    et = {(1, 2): "SEG2", (1, 3): "SEG3", (1, 4): "SEG4", (1, 5): "SEG5", (2, 3): "TRI3", (2, 6): "TRI6", (2, 10): "TRI10", (2, 15): "TRI15",
          (2, 4): "QUAD4", (2, 8): "QUAD8", (2, 9): "QUAD9", (3, 4): "TETRA4", (3, 10): "TETRA10", (3, 8): "HEXA8", (3, 20): "HEXA20",
          (3, 27): "HEXA27", (3, 6): "PRISM6", (3, 15): "PRISM15", (3, 18): "PRISM18"}[(dim, nPe)]
    return patches.two_element_mesh(et)


def native_operator(kind, dim, nPe, **kw):
    """the real operator on a real two-element mesh against the integral written out with numpy"""
    def run():
        from EasyFEA.FEM.Operators import Bilinear, Linear
        from EasyFEA.FEM._utils import MatrixType
        rng = np.random.default_rng(3)
        g = _mesh(dim, nPe).groupElem
        Ne = g.Ne
        if kind == "LinearizedElasticity":
            ns = {2: 3, 3: 6}[dim]
            A = rng.normal(size=(ns, ns))
            C = A @ A.T + np.eye(ns)
            wJ = np.asarray(g.Get_weightedJacobian_e_pg(MatrixType.rigi)); B = np.asarray(g.Get_B_e_pg(MatrixType.rigi))
            got = Bilinear.LinearizedElasticity(g, C)
            want = np.einsum("ep,epki,kl,eplj->eij", wJ, B, C, B)
        elif kind == "GradUGradV":
            wJ = np.asarray(g.Get_weightedJacobian_e_pg(MatrixType.rigi)); dN = np.asarray(g.Get_dN_e_pg(MatrixType.rigi))
            c = rng.uniform(1, 2, size=wJ.shape)
            got = Bilinear.GradUGradV(g, c)
            want = np.einsum("ep,ep,epki,epkj->eij", c, wJ, dN, dN)
        elif kind == "GradU_A_GradV":
            wJ = np.asarray(g.Get_weightedJacobian_e_pg(MatrixType.rigi)); dN = np.asarray(g.Get_dN_e_pg(MatrixType.rigi))
            A = rng.normal(size=(dim, dim))
            got = Bilinear.GradU_A_GradV(g, A)
            want = np.einsum("ep,epkj,kl,epli->eij", wJ, dN, A, dN)
        elif kind == "UV":
            dof_n = kw.get("dof_n", 1)
            wJ = np.asarray(g.Get_weightedJacobian_e_pg(MatrixType.mass)); N = np.asarray(g.Get_N_pg_rep(MatrixType.mass, dof_n))
            c = rng.uniform(1, 2, size=wJ.shape)
            got = Bilinear.UV(g, c, dof_n)
            want = np.einsum("ep,ep,pki,pkj->eij", c, wJ, N, N)
        elif kind == "V":
            dof_n = kw.get("dof_n", 1)
            wJ = np.asarray(g.Get_weightedJacobian_e_pg(MatrixType.mass)); N = np.asarray(g.Get_N_pg_rep(MatrixType.mass, dof_n))
            c = rng.uniform(1, 2, size=wJ.shape)
            got = np.asarray(Linear.V(g, c, dof_n))
            want = np.einsum("ep,ep,pki->eik", c, wJ, N)
            want = want.reshape(got.shape) if want.size == got.size else want
        else:
            return dict(confirmed=False, note=f"no native replay for {kind}")
        err = float(np.abs(np.asarray(got) - want).max() / (np.abs(want).max() + 1e-300))
        return dict(confirmed=bool(err > 1e-9), relative_error=err, mesh=f"two-element patch dim {dim} nPe {nPe}", Ne=int(Ne))
    return run


# ---------------------------------------------------------------------------------------------- integrand factors

@_guard
def ob_wJ():
    sp = gen.Space(dict(J=(NE, NPG), w=(NPG,)))
    g, NPs, Fe = env(sp, "EasyFEA.FEM._group_elem")
    f = fn_of(GP, "_GroupElem.Get_weightedJacobian_e_pg", g)
    me = sx.Mock("self", dim=2, Get_jacobian_e_pg=lambda mt: sp.fe("J"), Get_weight_pg=lambda mt: sp.arr("w"))
    got = f(me, "rigi")
    if not bool(getattr(got, "fe", False)):
        raise Refuted("Get_weightedJacobian_e_pg does not return a field (FeArray)", signature="wJ:type")
    check(got, gen.einsum("ep,p->ep", sp.arr("J"), sp.arr("w")), "weighted jacobian != jacobian[e,p] * weight[p]", "wJ")
    return Verdict(DISCHARGED, backend=BACKEND, sub=2)


@_guard
def ob_parts(which, dim, nPe, dof_n=1, canary=False):
    ns = {1: 1, 2: 3, 3: 6}[dim]
    nd = nPe * dof_n
    sp = gen.Space(dict(wJ=(NE, NPG), B=(NE, NPG, ns, nPe * dim), dN=(NE, NPG, dim, nPe), N=(NPG, dof_n, nd)))
    g, NPs, Fe = env(sp, "EasyFEA.FEM._group_elem")
    me = sx.Mock("self", dim=dim, nPe=nPe,
                 Get_weightedJacobian_e_pg=lambda mt: sp.fe("wJ"), Get_B_e_pg=lambda mt: sp.fe("B"),
                 Get_dN_e_pg=lambda mt: sp.fe("dN"), Get_N_pg_rep=lambda mt, r=1: sp.arr("N"))
    wJ, B, dN, N = sp.arr("wJ"), sp.arr("B"), sp.arr("dN"), sp.arr("N")
    if which == "leftDispPart":
        got = fn_of(GP, "_GroupElem.Get_leftDispPart_e_pg", g)(me, "rigi")
        want = gen.einsum("ep,epij->epji", wJ, B)
    elif which == "DiffusePart":
        got = fn_of(GP, "_GroupElem.Get_DiffusePart_e_pg", g)(me, "rigi")
        want = gen.einsum("ep,epij->epji", wJ, dN)
    elif which == "ReactionPart":
        got = fn_of(GP, "_GroupElem.Get_ReactionPart_e_pg", g)(me, "mass", dof_n)
        want = gen.einsum("ep,pki,pkj->epij", wJ, N, N)
    elif which == "SourcePart":
        got = fn_of(GP, "_GroupElem.Get_SourcePart_e_pg", g)(me, "mass", dof_n)
        want = gen.einsum("ep,pki->epik", wJ, N)
    else:
        raise AssertionError(which)
    if canary:
        want = want + want
    if not bool(getattr(got, "fe", False)):
        raise Refuted(f"Get_{which}_e_pg does not return a field (FeArray)", signature=f"{which}:type")
    check(got, want, f"Get_{which}_e_pg (dim {dim}, nPe {nPe}, dof_n {dof_n})", f"{which}:{dim}:{nPe}:{dof_n}")
    return Verdict(DISCHARGED, backend=BACKEND, sub=int(np.prod(got.data.shape)))


@_guard
def ob_N_rep(nPe, repeat):
    sp = gen.Space(dict(N=(NPG, 1, nPe)))
    g, NPs, Fe = env(sp, "EasyFEA.FEM._group_elem")
    me = sx.Mock("self", dim=2, Get_N_pg=lambda mt: sp.arr("N"))
    got = fn_of(GP, "_GroupElem.Get_N_pg_rep", g)(me, "mass", repeat)
    want = sp.full((NPG, repeat, repeat * nPe), 0)
    for r in range(repeat):
        for n in range(nPe):
            want.data[0, r, n * repeat + r] = sp.arr("N").data[0, 0, n]
    check(got, want, f"Get_N_pg_rep(repeat={repeat}) is not the block pattern N_n at column n*repeat + r of row r", f"Nrep:{nPe}:{repeat}")
    return Verdict(DISCHARGED, backend=BACKEND, sub=repeat * repeat * nPe)


@_guard
def ob_B(dim, nPe):
    """Get_B_e_pg at the generic (e, p): B u == Kelvin-Mandel(sym grad u), grad u = sum_n u_n (x) dN_n"""
    ns = {2: 3, 3: 6}[dim]
    sp = gen.Space(dict(dN=(NE, NPG, dim, nPe), u=(nPe * dim,)))
    g, NPs, Fe = env(sp, "EasyFEA.FEM._group_elem")

    class Gs:
        nPg = NPG
    me = sx.Mock("self", Ne=NE, nPe=nPe, dim=dim, Get_dN_e_pg=lambda mt: sp.fe("dN"), Get_gauss=lambda mt: Gs())
    B = fn_of(GP, "_GroupElem.Get_B_e_pg", g)(me, "rigi")
    if not bool(getattr(B, "fe", False)) or tuple(map(repr, B.shape)) != tuple(map(repr, (NE, NPG, ns, nPe * dim))):
        raise Refuted(f"Get_B_e_pg returns {B!r}, expected a field of shape (Ne, nPg, {ns}, {nPe * dim})", signature=f"B:{dim}:shape")
    u = sp.arr("u")
    eps = gen.einsum("epij,j->epi", GA(sp, B.shape, B.data), u)
    dN = sp.arr("dN").data[0, 0]
    U = u.data.reshape(nPe, dim)
    grad = [[sum((dN[j, n] * U[n, i] for n in range(nPe)), sp.const(0)) for j in range(dim)] for i in range(dim)]
    r2 = sp.ctx.sqrt_rational(F(2))
    sym = lambda i, j: (grad[i][j] + grad[j][i]) / 2
    want = [sym(0, 0), sym(1, 1), r2 * sym(0, 1)] if dim == 2 else [sym(0, 0), sym(1, 1), sym(2, 2), r2 * sym(1, 2), r2 * sym(0, 2), r2 * sym(0, 1)]
    for r, w in enumerate(want):
        if not (eps.data[0, 0, r] == w):
            raise Refuted(f"Get_B_e_pg (dim {dim}, nPe {nPe}): strain component {r} of B u is {eps.data[0, 0, r]!r}, expected {w!r}", signature=f"B:{dim}:{r}")
    return Verdict(DISCHARGED, backend=BACKEND, sub=len(want))


class _Conn:
    """the connectivity (Ne, nPe) of the element group: only ever used to gather rows of a nodal table"""

    def __init__(self, name="connect"):
        self.name = name


class _Table:
    """contract of fancy indexing `table[connect]`: the rows of a nodal table listed by the connectivity (the gathered generic array is given by the contract)"""

    def __init__(self, gathered):
        self.gathered = gathered

    def __getitem__(self, idx):
        if not isinstance(idx, _Conn):
            raise Unsupported("a nodal table indexed by something else than the connectivity")
        return self.gathered.copy() if isinstance(self.gathered, GA) else self.gathered


@_guard
def ob_pipeline(dim, nPe):
    """Get_F_e_pg (dim == inDim) == dN_pg @ x_e ; Get_invF_e_pg == Inv(F) ; Get_dN_e_pg == invF @ dN_pg ; Get_jacobian_e_pg == |Det(F)|"""
    sp = gen.Space(dict(x=(NE, nPe, 3), dNr=(NPG, dim, nPe), Fm=(NE, NPG, dim, dim), iF=(NE, NPG, dim, dim), det=(NE, NPG)))
    called = []

    def Inv(M):
        called.append(("Inv", M))
        return sp.fe("iF")

    def Det(M):
        called.append(("Det", M))
        return sp.fe("det")
    g, NPs, Fe = env(sp, "EasyFEA.FEM._group_elem", Inv=Inv, Det=Det)
    n = 0
    # F
    me = sx.Mock("self", dim=dim, inDim=dim, connect=_Conn(), _global_to_local_nodes=_Table(_Conn("local")), coord=_Table(sp.arr("x")),
                 Get_dN_pg=lambda mt: sp.arr("dNr"))
    Fgot = fn_of(GP, "_GroupElem.Get_F_e_pg", g)(me, "rigi")
    want = gen.einsum("pin,enj->epij", sp.arr("dNr"), sp.arr("x")[:, :, :dim])
    check(Fgot, want, f"Get_F_e_pg (dim {dim}, nPe {nPe}) != sum_n dN_n,i x_n,j", f"F:{dim}:{nPe}")
    if not bool(getattr(Fgot, "fe", False)):
        raise Refuted("Get_F_e_pg does not return a field", signature="F:type")
    n += dim * dim
    # invF
    me = sx.Mock("self", dim=dim, Get_F_e_pg=lambda mt: sp.fe("Fm"))
    got = fn_of(GP, "_GroupElem.Get_invF_e_pg", g)(me, "rigi")
    if not (called and called[-1][0] == "Inv" and gen.first_difference(called[-1][1], sp.arr("Fm")) is None):
        raise Refuted("Get_invF_e_pg does not pass F to Inv", signature="invF:arg")
    check(got, sp.arr("iF"), "Get_invF_e_pg != Inv(F)", f"invF:{dim}")
    n += 1
    # dN_e_pg
    me = sx.Mock("self", dim=dim, Get_invF_e_pg=lambda mt: sp.fe("iF"), Get_dN_pg=lambda mt: sp.arr("dNr"))
    got = fn_of(GP, "_GroupElem.Get_dN_e_pg", g)(me, "rigi")
    check(got, gen.einsum("epij,pjn->epin", sp.arr("iF"), sp.arr("dNr")), f"Get_dN_e_pg (dim {dim}, nPe {nPe}) != invF @ dN_pg", f"dNe:{dim}:{nPe}")
    if not bool(getattr(got, "fe", False)):
        raise Refuted("Get_dN_e_pg does not return a field", signature="dNe:type")
    n += dim * nPe
    # jacobian
    me = sx.Mock("self", dim=dim, inDim=dim, Get_F_e_pg=lambda mt: sp.fe("Fm"))
    got = fn_of(GP, "_GroupElem.Get_jacobian_e_pg", g)(me, "rigi")
    if not (called[-1][0] == "Det" and gen.first_difference(called[-1][1], sp.arr("Fm")) is None):
        raise Refuted("Get_jacobian_e_pg does not pass F to Det", signature="jac:arg")
    check(got, abs(sp.arr("det")), "Get_jacobian_e_pg != |Det(F)|", f"jac:{dim}")
    got = fn_of(GP, "_GroupElem.Get_jacobian_e_pg", g)(me, "rigi", False)
    check(got, sp.arr("det"), "Get_jacobian_e_pg(absoluteValues=False) != Det(F)", f"jac:signed:{dim}")
    n += 2
    return Verdict(DISCHARGED, backend=BACKEND, sub=n)


@_guard
def ob_constgrad_lemma(dim, nPe):
    """from the contracts above: F = dN x, invF F = I, dN_e = invF dN, sum_n dN_n = 0 (C06: partition of unity)
    => the gradient sum_n dN_e[:, n] (G x_n + c) of a linear field equals G at the generic point of ANY non-degenerate element"""
    names = dict(x=(nPe, dim), dNr=(dim, nPe - 1), G=(dim, dim), c=(dim,))
    sp = gen.Space(names)
    x, d0, G, c = (sp.arr(k).data for k in ("x", "dNr", "G", "c"))
    zero = sp.const(0)
    dN = np.empty((dim, nPe), dtype=object)
    dN[:, : nPe - 1] = d0
    for i in range(dim):
        dN[i, nPe - 1] = -sum((d0[i, n] for n in range(nPe - 1)), zero)       # C06.partition of unity, differentiated
    Fm = dN @ x                                                                  # contract of Get_F_e_pg
    u = x @ G.T + c                                                              # u_n = G x_n + c
    # contract of Get_dN_e_pg: dN_e = iF dN with iF F = I (Get_invF_e_pg == Inv(F), C01.linalg: M Inv(M) = I = Inv(M) M for a square matrix);
    # by associativity  dN_e u = iF (dN u), so it is enough that  dN u == F G^T  as polynomials:  then dN_e u = iF F G^T = G^T
    lhs, rhs = dN @ u, Fm @ G.T
    for i in range(dim):
        for j in range(dim):
            if not (lhs[i, j] == rhs[i, j]):
                raise Refuted(f"gradient of a linear field: (dN u)[{i},{j}] = {lhs[i, j]!r} differs from (F G^T)[{i},{j}] = {rhs[i, j]!r}", signature=f"constgrad:{dim}:{nPe}")
    return Verdict(DISCHARGED, backend="identity in QQ(x, dN, G, c) from the callee contracts", sub=dim * dim)


# ---------------------------------------------------------------------------------------------- operators

COEF_FORMS = ("scalar", "number", "e", "p", "ep")


def _coef(sp, form):
    if form == "scalar":
        return sp.sym("k"), lambda: sp.full((NE, NPG), sp.sym("k"))
    if form == "number":
        return 3, lambda: sp.full((NE, NPG), 3)
    if form == "e":
        return sp.arr("ke"), lambda: gen.einsum("e,ep->ep", sp.arr("ke"), sp.full((NE, NPG), 1))
    if form == "p":
        return sp.arr("kp"), lambda: gen.einsum("p,ep->ep", sp.arr("kp"), sp.full((NE, NPG), 1))
    if form == "ep":
        return sp.arr("kep"), lambda: sp.arr("kep")
    if form == "fe":
        return sp.fe("kep"), lambda: sp.arr("kep")
    raise AssertionError(form)


_COEF_DECL = dict(ke=(NE,), kp=(NPG,), kep=(NE, NPG))


def _plain(a):
    return GA(a.sp, a.shape, a.data)


@_guard
def ob_operator(kind, dim, nPe, form="scalar", dof_n=1, canary=False):
    ns = {1: 1, 2: 3, 3: 6}[dim]
    nd = nPe * dof_n
    decl = dict(wJ=(NE, NPG), B=(NE, NPG, ns, nPe * dim), dN=(NE, NPG, dim, nPe), N=(NPG, dof_n, nd),
                C0=(ns, ns), Ce=(NE, ns, ns), Cep=(NE, NPG, ns, ns), A0=(dim, dim), Ae=(NE, dim, dim), Aep=(NE, NPG, dim, dim),
                sig=(NE, NPG, ns), nrm=(NE, NPG, 3), N3=(NPG, 3, 3 * nPe))
    decl.update(_COEF_DECL)
    sp = gen.Space(decl, scalars=("k",))
    g, NPs, Fe = env(sp, "EasyFEA.FEM.Operators.Bilinear")
    wJ, B, dN, N = sp.arr("wJ"), sp.arr("B"), sp.arr("dN"), sp.arr("N")
    # callees by their contracts (ob_parts)
    me = sx.Mock("groupElem", dim=dim, nPe=nPe, Ne=NE,
                 Get_weightedJacobian_e_pg=lambda mt: sp.fe("wJ"), Get_B_e_pg=lambda mt: sp.fe("B"), Get_dN_e_pg=lambda mt: sp.fe("dN"),
                 Get_leftDispPart_e_pg=lambda mt: GFe._wrap(gen.einsum("ep,epij->epji", wJ, B)),
                 Get_DiffusePart_e_pg=lambda mt: GFe._wrap(gen.einsum("ep,epij->epji", wJ, dN)),
                 Get_ReactionPart_e_pg=lambda mt, d=1: GFe._wrap(gen.einsum("ep,pki,pkj->epij", wJ, N, N)),
                 Get_SourcePart_e_pg=lambda mt, d=1: GFe._wrap(gen.einsum("ep,pki->epik", wJ, N)),
                 Get_N_pg_rep=lambda mt, d=1: sp.arr("N3") if d == 3 else sp.arr("N"),
                 Get_normals_e_pg=lambda mt: sp.fe("nrm"))
    names = ["einsum", "GradUGradV", "UV", "LinearizedElasticity", "MassAlongNormal", "GradU_A_GradV"]
    g["TensorProd"] = lambda a, b: GFe._wrap(gen.einsum("epi,epj->epij", _plain(a), _plain(b)))     # contract of _linalg.TensorProd on two vector fields (C12)
    fns = module_fns(BP, g, names)
    if kind in ("V", "InternalForce"):
        gl, _, _ = env(sp, "EasyFEA.FEM.Operators.Linear")
        gl["FeArray"] = g["FeArray"]
        gl["np"] = g["np"]
        lfns = module_fns(LIP, gl, ["V", "InternalForce"])
    coef, cfull = _coef(sp, form if form in COEF_FORMS or form == "fe" else "scalar")
    kk = cfull()
    if kind == "LinearizedElasticity":
        C = {"homogeneous": sp.arr("C0"), "e": sp.arr("Ce"), "ep": sp.arr("Cep"), "fe": sp.fe("Cep")}[form]
        Cfull = {"homogeneous": gen.einsum("ij,ep->epij", sp.arr("C0"), sp.full((NE, NPG), 1)),
                 "e": gen.einsum("eij,ep->epij", sp.arr("Ce"), sp.full((NE, NPG), 1)), "ep": sp.arr("Cep"), "fe": sp.arr("Cep")}[form]
        got = fns["LinearizedElasticity"](me, C)
        want = gen.einsum("ep,epki,epkl,eplj->eij", wJ, B, Cfull, B)
    elif kind == "GradUGradV":
        got = fns["GradUGradV"](me, coef)
        want = gen.einsum("ep,ep,epki,epkj->eij", kk, wJ, dN, dN)
    elif kind == "GradU_A_GradV":
        A = {"homogeneous": sp.arr("A0"), "e": sp.arr("Ae"), "ep": sp.arr("Aep")}[form]
        Afull = {"homogeneous": gen.einsum("ij,ep->epij", sp.arr("A0"), sp.full((NE, NPG), 1)),
                 "e": gen.einsum("eij,ep->epij", sp.arr("Ae"), sp.full((NE, NPG), 1)), "ep": sp.arr("Aep")}[form]
        got = fns["GradU_A_GradV"](me, A, sp.arr("kep"))
        # a(u, v) = coef grad u . A . grad v ; entry [i, j] belongs to the TEST function N_i and the TRIAL function N_j (the convention of every assembled matrix:
        # (K u)_i = a(u, v_i)), i.e. grad N_j . A . grad N_i -- for a non-symmetric A this is not its transpose
        want = gen.einsum("ep,ep,epkj,epkl,epli->eij", sp.arr("kep"), wJ, dN, Afull, dN)
    elif kind == "UV":
        got = fns["UV"](me, coef, dof_n)
        want = gen.einsum("ep,ep,pki,pkj->eij", kk, wJ, N, N)
    elif kind == "MassAlongNormal":
        got = fns["MassAlongNormal"](me, coef)
        n_ = sp.arr("nrm")
        want = gen.einsum("ep,ep,pai,epa,epb,pbj->eij", kk, wJ, sp.arr("N3"), n_, n_, sp.arr("N3"))
    elif kind == "V":
        got = lfns["V"](me, coef, dof_n)
        want = gen.einsum("ep,ep,pki->eik", kk, wJ, N)
    elif kind == "InternalForce":
        got = lfns["InternalForce"](me, sp.arr("sig") if form != "fe" else sp.fe("sig"))
        want = gen.einsum("ep,epki,epk->ei", wJ, B, sp.arr("sig"))
    else:
        raise AssertionError(kind)
    if canary:
        want = want * 2
    if bool(getattr(got, "fe", False)):
        raise Refuted(f"{kind} returns a field: the integral over the Gauss points is an (Ne, ...) array", signature=f"{kind}:type")
    check(got, want, f"{kind} (dim {dim}, nPe {nPe}, {form}, dof_n {dof_n}) is not the integral of its documented integrand", f"{kind}:{dim}:{nPe}:{form}:{dof_n}",
          replay=native_operator(kind, dim, nPe, dof_n=dof_n))
    return Verdict(DISCHARGED, backend=BACKEND, sub=int(np.prod(got.data.shape)))


# ---------------------------------------------------------------------------------------------- beams

@_guard
def ob_beam(kind, bdim, nPe, timo):
    """BeamBending / BeamShear / BeamStiffness / BeamMass against the integrals of their integrands (D, M of the beam structure arbitrary)"""
    dof_n = {1: 1, 2: 3, 3: 6}[bdim]
    nr = {1: 1, 2: 3 if timo else 2, 3: 6 if timo else 4}[bdim]
    nd = nPe * dof_n
    decl = dict(wJ=(NE, NPG), wJs=(NE, NPG), B=(NE, NPG, nr, nd), Bs=(NE, NPG, nr, nd), D=(NE, NPG, nr, nr), Ds=(NE, NPG, nr, nr),
                Nb=(NE, NPG, dof_n, nd), M=(NE, NPG, dof_n, dof_n))
    decl.update(_COEF_DECL)
    sp = gen.Space(decl, scalars=("k",))
    g, NPs, Fe = env(sp, "EasyFEA.FEM.Operators.Bilinear")

    class Group(sx.Mock, _Timo if timo else _EB):
        pass
    me = Group("groupElem", Ne=NE, nPe=nPe,
               Get_weightedJacobian_e_pg=lambda mt: sp.fe("wJs") if str(mt).endswith("beam_shear") else sp.fe("wJ"),
               Get_beam_B_e_pg=lambda bs, mt=None: sp.fe("Bs") if mt is not None and str(mt).endswith("beam_shear") else sp.fe("B"),
               Get_beam_N_e_pg=lambda bs: sp.fe("Nb"))
    bs = sx.Mock("beamStructure", dim=bdim, dof_n=dof_n,
                 Calc_D_e_pg=lambda ge, mt: sp.fe("Ds") if str(mt).endswith("beam_shear") else sp.fe("D"),
                 Calc_M_e_pg=lambda ge: sp.fe("M"))
    fns = module_fns(BP, g, ["einsum", "BeamBending", "BeamShear", "BeamStiffness", "BeamMass"])
    wJ, wJs, B, Bs, D, Ds = (sp.arr(k) for k in ("wJ", "wJs", "B", "Bs", "D", "Ds"))
    shear_rows = {1: (), 2: (2,), 3: (4, 5)}[bdim] if timo else ()
    split = bool(timo and bdim != 1)

    def masked(Dm, keep_shear):
        Dm = Dm.copy()
        for r in range(nr):
            if (r in shear_rows) != keep_shear:
                Dm.data[0, 0, r, r] = sp.const(0)
        return Dm
    full = gen.einsum("ep,epki,epkl,eplj->eij", wJ, B, D, B)
    bend = gen.einsum("ep,epki,epkl,eplj->eij", wJ, B, masked(D, False), B) if split else full
    shear = gen.einsum("ep,epki,epkl,eplj->eij", wJs, Bs, masked(Ds, True), Bs) if split else sp.full((NE, nd, nd), 0)
    if kind == "BeamBending":
        got, want = fns["BeamBending"](me, bs), bend
    elif kind == "BeamShear":
        got, want = fns["BeamShear"](me, bs), shear
    elif kind == "BeamStiffness":
        got, want = fns["BeamStiffness"](me, bs), (bend + shear) if split else full
    elif kind == "BeamMass":
        got = fns["BeamMass"](me, bs, sp.arr("kep"))
        want = gen.einsum("ep,ep,epki,epkl,eplj->eij", sp.arr("kep"), wJ, sp.arr("Nb"), sp.arr("M"), sp.arr("Nb"))
    else:
        raise AssertionError(kind)
    if isinstance(got, np.ndarray):
        got = sp.lift(got) if got.size else got
        if isinstance(got, np.ndarray):
            raise Unsupported("the operator returned a real array of symbolic extent")
    check(got, want, f"{kind} (beam dim {bdim}, nPe {nPe}, {'Timoshenko' if timo else 'Euler-Bernoulli'})", f"{kind}:{bdim}:{nPe}:{int(timo)}")
    return Verdict(DISCHARGED, backend=BACKEND, sub=int(np.prod(got.data.shape)))


# ---------------------------------------------------------------------------------------------- simulations

@_guard
def ob_local_system(sim, dim, nPe):
    """Construct_local_matrix_system: (K, C, M, F) per element group from the operator contracts"""
    nd = nPe * (dim if sim == "Elastic" else 1)
    sp = gen.Space(dict(K=(NE, nd, nd), M=(NE, nd, nd), Cm=(3, 3), kc=(3, 3)), scalars=("t", "rho", "cK", "cM", "cond", "cap"))
    calls = []

    class OpsB:
        @staticmethod
        def LinearizedElasticity(ge, C, *a, **k):
            calls.append(("LinearizedElasticity", ge, C, a, k))
            return sp.arr("K").copy()

        @staticmethod
        def UV(ge, coef=1.0, dof_n=1, *a, **k):
            calls.append(("UV", ge, coef, dof_n, a, k))
            return sp.arr("M").copy() * coef

        @staticmethod
        def GradUGradV(ge, coef=1.0, *a, **k):
            calls.append(("GradUGradV", ge, coef, a, k))
            return sp.arr("K").copy() * coef

    class Operators:
        Bilinear = OpsB
    group = sx.Mock("groupElem", elemType="TRI3")
    mesh = sx.Mock("mesh", Get_list_groupElem=lambda *a, **k: [group], groupElem=group, dim=dim)
    t, rho, cK, cM = (sp.sym(k) for k in ("t", "rho", "cK", "cM"))
    K, M = sp.arr("K"), sp.arr("M")
    if sim == "Elastic":
        g, NPs, Fe = env(sp, "EasyFEA.Simulations._elastic", Operators=Operators)
        me = sx.Mock("self", mesh=mesh, dim=dim, material=sx.Mock("material", C=sp.arr("Cm"), thickness=t), rho=rho, _verbosity=False,
                     _Elastic__coefK=cK, _Elastic__coefM=cM)
        out = fn_of("EasyFEA/Simulations/_elastic.py", "Elastic.Construct_local_matrix_system", g)(me, "displacement")
        th = t if dim == 2 else 1
        wantK, wantM = K * th, M * rho * th
        wantC = wantK * cK + wantM * cM
        uv = [c for c in calls if c[0] == "UV"]
        if not uv or uv[0][3] != dim:
            raise Refuted(f"the mass operator is called with dof_n = {uv[0][3] if uv else None}, expected the dimension {dim}", signature="local:Elastic:dof_n")
        le = [c for c in calls if c[0] == "LinearizedElasticity"]
        if not le or gen.first_difference(sp.lift(le[0][2]), sp.arr("Cm")) is not None:
            raise Refuted("the stiffness operator is not called with the material's C", signature="local:Elastic:C")
    else:
        g, NPs, Fe = env(sp, "EasyFEA.Simulations._thermal", Operators=Operators)
        cond, cap = sp.sym("cond"), sp.sym("cap")
        me = sx.Mock("self", mesh=mesh, dim=dim, rho=rho, _verbosity=False,
                     thermalModel=sx.Mock("thermalModel", k=cond, c=cap, thickness=t, dim=dim))
        out = fn_of("EasyFEA/Simulations/_thermal.py", "Thermal.Construct_local_matrix_system", g)(me, "thermal")
        th = t if dim == 2 else 1
        wantK, wantC, wantM = K * cond * th, M * (rho * cap) * th, None
    if not isinstance(out, dict) or list(out.keys()) != [group]:
        raise Refuted("Construct_local_matrix_system does not return one entry per element group", signature=f"local:{sim}:keys")
    Kg, Cg, Mg, Fg = out[group]
    for nm, got, want in (("K", Kg, wantK), ("C", Cg, wantC), ("M", Mg, wantM)):
        if want is None:
            if got is not None and not (isinstance(got, GA) and gen.first_difference(got, sp.full(got.shape, 0)) is None):
                raise Refuted(f"{sim}: slot {nm} should be empty", signature=f"local:{sim}:{nm}")
            continue
        check(got, want, f"{sim}.Construct_local_matrix_system slot {nm} (dim {dim})", f"local:{sim}:{nm}:{dim}")
    if Fg is not None:
        raise Refuted("slot F of the local system is not None", signature=f"local:{sim}:F")
    return Verdict(DISCHARGED, backend=BACKEND, sub=3 * nd * nd)


# ---------------------------------------------------------------------------------------------- obligation lists

def f_(path, q):
    return f"{path}::{q}"


def obligations(prop, tier, groups):
    """groups: subset of {'parts', 'pipeline', 'B', 'operators.K', 'operators.M', 'operators.load', 'beam', 'local'}"""
    obs = []
    P = prop
    bound = "all Ne, all nPg (generic element and point); tensor extents enumerated"
    if "parts" in groups:
        obs.append(Ob(f"{P}.gp.wJ", ob_wJ, (), "P", (f_(GP, "_GroupElem.Get_weightedJacobian_e_pg"),),
                      clause="wJ[e,p] == jacobian[e,p] * weight[p], a field, for all Ne, nPg", timeout=120))
        for dim, nPe in shapes(tier):
            if dim >= 2:
                obs.append(Ob(f"{P}.gp.leftDispPart.{dim}d.n{nPe}", ob_parts, ("leftDispPart", dim, nPe), "P", (f_(GP, "_GroupElem.Get_leftDispPart_e_pg"),),
                              clause="== wJ[e,p] * B[e,p]^T for an arbitrary B, for all Ne, nPg", timeout=300))
            obs.append(Ob(f"{P}.gp.DiffusePart.{dim}d.n{nPe}", ob_parts, ("DiffusePart", dim, nPe), "P", (f_(GP, "_GroupElem.Get_DiffusePart_e_pg"),),
                          clause="== wJ[e,p] * dN[e,p]^T, for all Ne, nPg", timeout=300))
            for dof_n in sorted({1, dim}):
                obs.append(Ob(f"{P}.gp.ReactionPart.{dim}d.n{nPe}.dof{dof_n}", ob_parts, ("ReactionPart", dim, nPe, dof_n), "P",
                              (f_(GP, "_GroupElem.Get_ReactionPart_e_pg"),), clause="== wJ[e,p] * N[p]^T N[p], for all Ne, nPg", timeout=300))
                obs.append(Ob(f"{P}.gp.SourcePart.{dim}d.n{nPe}.dof{dof_n}", ob_parts, ("SourcePart", dim, nPe, dof_n), "P",
                              (f_(GP, "_GroupElem.Get_SourcePart_e_pg"),), clause="== wJ[e,p] * N[p]^T, for all Ne, nPg", timeout=300))
        for nPe in sorted({n for _, n in shapes(tier)}):
            for rep in (1, 2, 3):
                obs.append(Ob(f"{P}.gp.N_rep.n{nPe}.r{rep}", ob_N_rep, (nPe, rep), "P", (f_(GP, "_GroupElem.Get_N_pg_rep"),),
                              clause="block pattern: N_n at (row r, column n*repeat + r), zero elsewhere, for all nPg", timeout=120))
        obs.append(Ob(f"{P}.gp.canary.parts", ob_parts, ("leftDispPart", 2, 3, 1, True), "P", expect=REFUTED, clause="2 wJ B^T must be refuted", timeout=120))
    if "B" in groups:
        for dim, nPe in shapes(tier):
            if dim >= 2:
                obs.append(Ob(f"{P}.gp.B.{dim}d.n{nPe}", ob_B, (dim, nPe), "P", (f_(GP, "_GroupElem.Get_B_e_pg"),),
                              clause="B u == Kelvin-Mandel(sym grad u) for arbitrary dN and nodal vector, for all Ne, nPg", timeout=600))
    if "pipeline" in groups:
        for dim, nPe in shapes(tier):
            obs.append(Ob(f"{P}.gp.pipeline.{dim}d.n{nPe}", ob_pipeline, (dim, nPe), "P",
                          tuple(f_(GP, f"_GroupElem.{q}") for q in ("Get_F_e_pg", "Get_invF_e_pg", "Get_dN_e_pg", "Get_jacobian_e_pg")),
                          clause="F == dN_pg x_e (dim == inDim); invF == Inv(F); dN_e_pg == invF dN_pg; jacobian == |Det F| (Det F when signed), for all Ne, nPg",
                          timeout=300))
            obs.append(Ob(f"{P}.gp.constgrad.{dim}d.n{nPe}", ob_constgrad_lemma, (dim, nPe), "L", (),
                          clause="callee contracts + partition of unity => gradient of a linear field is exact at every point of every non-degenerate element", timeout=900))
    if "operators.K" in groups:
        for dim, nPe in shapes(tier, 24):
            if dim >= 2:
                for form in ("homogeneous", "e", "ep", "fe"):
                    obs.append(Ob(f"{P}.gp.LinearizedElasticity.{dim}d.n{nPe}.{form}", ob_operator, ("LinearizedElasticity", dim, nPe, form), "P",
                                  (f_(BP, "LinearizedElasticity"), f_(LP, "FeArray.broadcast")),
                                  clause="K_e == sum_p wJ B^T C B for arbitrary B, C (homogeneous / per element / per point), for all Ne, nPg", timeout=900))
            for form in COEF_FORMS:
                obs.append(Ob(f"{P}.gp.GradUGradV.{dim}d.n{nPe}.{form}", ob_operator, ("GradUGradV", dim, nPe, form), "P",
                              (f_(BP, "GradUGradV"), f_(LP, "FeArray.broadcast")), clause="== sum_p coef wJ dN^T dN, for all Ne, nPg", timeout=600))
            if dim >= 2:
                for form in ("homogeneous", "e", "ep"):
                    obs.append(Ob(f"{P}.gp.GradU_A_GradV.{dim}d.n{nPe}.{form}", ob_operator, ("GradU_A_GradV", dim, nPe, form), "P",
                                  (f_(BP, "GradU_A_GradV"), f_(LP, "FeArray.broadcast")), clause="== sum_p coef wJ dN^T A dN, for all Ne, nPg", timeout=600))
        obs.append(Ob(f"{P}.gp.canary.operator", ob_operator, ("LinearizedElasticity", 2, 3, "homogeneous", 1, True), "P", expect=REFUTED,
                      clause="twice the integral must be refuted", timeout=300))
    if "operators.M" in groups:
        for dim, nPe in shapes(tier, 24):
            for dof_n in sorted({1, dim}):
                for form in COEF_FORMS:
                    obs.append(Ob(f"{P}.gp.UV.{dim}d.n{nPe}.dof{dof_n}.{form}", ob_operator, ("UV", dim, nPe, form, dof_n), "P",
                                  (f_(BP, "UV"), f_(LP, "FeArray.broadcast"), f_(LP, "FeArray.integrate")),
                                  clause="== sum_p coef wJ N^T N, for all Ne, nPg", timeout=600))
        for nPe in (2, 3, 4):
            obs.append(Ob(f"{P}.gp.MassAlongNormal.n{nPe}", ob_operator, ("MassAlongNormal", 2, nPe, "ep"), "P", (f_(BP, "MassAlongNormal"),),
                          clause="== sum_p coef wJ N^T (n (x) n) N, for all Ne, nPg", timeout=600))
    if "operators.load" in groups:
        for dim, nPe in shapes(tier, 24):
            for dof_n in sorted({1, dim}):
                for form in COEF_FORMS:
                    obs.append(Ob(f"{P}.gp.V.{dim}d.n{nPe}.dof{dof_n}.{form}", ob_operator, ("V", dim, nPe, form, dof_n), "P",
                                  (f_(LIP, "V"), f_(LP, "FeArray.broadcast")), clause="== sum_p f wJ N^T, for all Ne, nPg", timeout=600))
            if dim >= 2:
                for form in ("ep", "fe"):
                    obs.append(Ob(f"{P}.gp.InternalForce.{dim}d.n{nPe}.{form}", ob_operator, ("InternalForce", dim, nPe, form), "P",
                                  (f_(LIP, "InternalForce"),), clause="== sum_p wJ B^T sigma, for all Ne, nPg", timeout=600))
    if "beam" in groups:
        for bdim in (1, 2, 3):
            for nPe in ((2, 3) if tier == "quick" else (2, 3, 4, 5)):
                for timo in (False, True):
                    for kind in ("BeamBending", "BeamShear", "BeamStiffness", "BeamMass"):
                        obs.append(Ob(f"{P}.gp.{kind}.{bdim}d.n{nPe}.{'timoshenko' if timo else 'eb'}", ob_beam, (kind, bdim, nPe, timo), "P",
                                      (f_(BP, kind),), clause="bending at the full rule + shear at the reduced rule, each the integral of B^T D_masked B (mass: N^T M N)", timeout=600))
    if "local" in groups:
        for sim in ("Elastic", "Thermal"):
            for dim in ((2, 3) if sim == "Elastic" else (1, 2, 3)):
                obs.append(Ob(f"{P}.gp.local.{sim}.{dim}d", ob_local_system, (sim, dim, 3), "P",
                              (f_(f"EasyFEA/Simulations/_{sim.lower()}.py", f"{sim}.Construct_local_matrix_system"),),
                              clause="K, C, M slots: operator results scaled by thickness exactly when dim == 2, density / capacity / Rayleigh coefficients as documented", timeout=300))
    for o in obs:
        if o.tier == "P" and not o.bound:
            o.bound = ""
    return obs


# ---------------------------------------------------------------------------------------------- self-check of the generic-array model

def ob_selfcheck():
    """vt.gen against numpy itself on shapes without symbolic extents (integers): einsum, matmul, broadcasting, indexing, FeArray rules
    against the real FeArray class.  A disagreement is a defect of the checker (exit 3), not of the code under contract."""
    from EasyFEA.FEM._linalg import FeArray
    rng = np.random.default_rng(11)
    sp = gen.Space({}, scalars=("k",))

    def G(a, fe=False):
        g = sp.lift(np.asarray(a))
        return GFe(sp, g.shape, g.data) if fe else g

    def same(g, a, what):
        a = np.asarray(a)
        if tuple(g.shape) != a.shape:
            raise AssertionError(f"vt.gen self-check: {what}: shape {g.shape} vs numpy {a.shape}")
        for idx in np.ndindex(a.shape):
            if not (g.data[idx] == int(a[idx])):
                raise AssertionError(f"vt.gen self-check: {what}: entry {idx}")
    I = lambda *s: rng.integers(-4, 5, size=s)
    n = 0
    for subs, shp in (("epij,epjk->eik", ((2, 3, 4, 2), (2, 3, 2, 5))), ("ep,epji,epjk,epkl->eil", ((2, 3), (2, 3, 2, 4), (2, 3, 2, 2), (2, 3, 2, 4))),
                      ("...i,...ij->...j", ((2, 3, 4), (2, 3, 4, 2))), ("ij,...jk->...ik", ((3, 2), (2, 3, 2, 4))), ("ep,p->ep", ((2, 3), (3,))),
                      ("pin,enj->epij", ((3, 2, 4), (2, 4, 2))), ("ep,opji,epjk,opkl->eil", ((2, 3), (1, 3, 3, 6), (2, 3, 3, 3), (1, 3, 3, 6)))):
        arrs = [I(*s) for s in shp]
        same(gen.einsum(subs, *[G(a) for a in arrs]), np.einsum(subs, *arrs), f"einsum {subs}")
        n += 1
    a, b = I(2, 3, 4, 2), I(2, 3, 2, 5)
    same(G(a) @ G(b), a @ b, "matmul"); n += 1
    same(G(a)[:, :, 1, None] * G(b)[..., 0:1, ::3], a[:, :, 1, None] * b[..., 0:1, ::3], "indexing + broadcast"); n += 1
    z = G(np.zeros((2, 3, 3, 6), dtype=int)); zz = np.zeros((2, 3, 3, 6), dtype=int)
    v = I(2, 3, 3)
    z[:, :, 2, np.arange(1, 6, 2)] = G(v); zz[:, :, 2, np.arange(1, 6, 2)] = v
    same(z, zz, "strided assignment"); n += 1
    # FeArray rules against the real class
    w, M, V, Cc = I(2, 3), I(2, 3, 4, 2), I(2, 3, 2), I(2, 2)
    fw, fM, fV = FeArray.asfearray(w), FeArray.asfearray(M), FeArray.asfearray(V)
    gw, gM, gV = G(w, True), G(M, True), G(V, True)
    for what, g, r in (("field * matrix field", gw * gM, fw * fM), ("matrix.T", gM.T, fM.T), ("field * matrix.T @ matrix", gw * gM.T @ gM, fw * fM.T @ fM),
                       ("matrix @ vector field", gM @ gV, fM @ fV), ("matrix @ constant", gM @ G(Cc), fM @ Cc), ("constant * field", G(Cc)[0] * gV, Cc[0] * fV),
                       ("integrate", (gw * gM).integrate(), (fw * fM).integrate()), ("scalar + field", 2 + gw, 2 + fw), ("field - matrix", gM - gw, fM - fw)):
        same(g, np.asarray(r), f"FeArray rule: {what}")
        if bool(getattr(g, "fe", False)) != isinstance(r, FeArray):
            raise AssertionError(f"vt.gen self-check: FeArray rule {what}: field-ness differs")
        n += 1
    # symbolic extents: a forbidden operation must be refused
    spx = gen.Space(dict(a=(NE, NPG, 2)))
    for what, f in (("integer index into a symbolic axis", lambda: spx.arr("a")[0]), ("mismatched symbols", lambda: spx.arr("a") + spx.arr("a").transpose(1, 0, 2)),
                    ("merge of symbolic axes", lambda: spx.arr("a").reshape(-1, 2))):
        try:
            f()
        except (Unsupported, gen.ShapeError):
            n += 1
            continue
        raise AssertionError(f"vt.gen self-check: {what} was not refused")
    return Verdict(DISCHARGED, backend="vt.gen vs numpy / the real FeArray on concrete integer arrays", sub=n)


def selfcheck_ob(prop):
    return Ob(f"{prop}.gp.selfcheck", ob_selfcheck, (), "L", (), clause="the generic-array model agrees with numpy and with the real FeArray class on concrete arrays; refuses index-specific operations on symbolic axes",
              timeout=120)


def functions_under_contract(groups):
    out = {}
    want = []
    if "parts" in groups:
        want += [(GP, f"_GroupElem.{q}") for q in ("Get_weightedJacobian_e_pg", "Get_leftDispPart_e_pg", "Get_DiffusePart_e_pg", "Get_ReactionPart_e_pg", "Get_SourcePart_e_pg", "Get_N_pg_rep")]
    if "B" in groups:
        want += [(GP, "_GroupElem.Get_B_e_pg")]
    if "pipeline" in groups:
        want += [(GP, f"_GroupElem.{q}") for q in ("Get_F_e_pg", "Get_invF_e_pg", "Get_dN_e_pg", "Get_jacobian_e_pg")]
    if "operators.K" in groups:
        want += [(BP, q) for q in ("GradUGradV", "GradU_A_GradV", "LinearizedElasticity")] + [(LP, "FeArray.broadcast")]
    if "operators.M" in groups:
        want += [(BP, q) for q in ("UV", "MassAlongNormal")] + [(LP, "FeArray.broadcast")]
    if "operators.load" in groups:
        want += [(LIP, q) for q in ("V", "InternalForce")]
    if "beam" in groups:
        want += [(BP, q) for q in ("BeamBending", "BeamShear", "BeamStiffness", "BeamMass")]
    if "local" in groups:
        want += [("EasyFEA/Simulations/_elastic.py", "Elastic.Construct_local_matrix_system"), ("EasyFEA/Simulations/_thermal.py", "Thermal.Construct_local_matrix_system")]
    for path, q in want:
        out[f"{path}::{q}"] = extract.get(path, q).describe()
    return out


GP_TRUST = ["vt/gen.py: generic-point arrays (one representative per symbolic axis; index-specific operations refused; formal integral over a symbolic axis) -- self-checked against numpy on concrete arrays every run",
            "FeArray is re-assembled from its own source on generic arrays (contracts/ops.py fe_real: T, @, dot, ddot, _align, integrate, reshape, broadcast, asfearray as written); modelled: what numpy's protocol hooks do for it -- elementwise operators call the real _align and then broadcast, sums are typed by the consumed axes -- and _assemble (its np.arange(Ne) indexing has no generic counterpart); this model is cross-checked against the real class on concrete arrays every run and decided by C12",
            "Int[D] f == Int[D] g decided by f == g (sufficient)"]


# ---------------------------------------------------------------------------------------------- load integration (C09)

SIMP = "EasyFEA/Simulations/_simu.py"
NN = gen.Dim("Nn")


class _Sel:
    """a selection of elements / nodes (an index array whose values are never looked at)"""

    def __init__(self, name, n):
        self.name, self.shape = name, (n,)


class _ConnSel:
    """groupElem.connect[elements]: (Ne, nPe) node numbers of the selected elements; only ever flattened or used to gather a nodal table"""

    def __init__(self, flat):
        self._flat = flat

    def ravel(self):
        return self._flat.copy()


class _ConnTable:
    def __init__(self, sel, conn):
        self.sel, self.conn = sel, conn

    def __getitem__(self, idx):
        if idx is not self.sel:
            raise Unsupported("connectivity indexed by something else than the selected elements")
        return self.conn


class _FieldOf:
    """a per-element field of the whole group, restricted to the selected elements by `field[elements]`"""

    def __init__(self, sel, restricted):
        self.sel, self.restricted = sel, restricted

    def __getitem__(self, idx):
        if idx is not self.sel:
            raise Unsupported("a per-element field indexed by something else than the selected elements")
        return self.restricted


class _NodalVec:
    """np.zeros(Nn): a nodal table; `t[nodes] = values` scatters, `t[connect]` gathers.  The contract of the pair: the gathered (Ne, nPe) array holds, at (e, n), the
    value given for the node connect[e, n] -- provided the scatter paired THE caller's nodes with THE caller's values, position by position"""

    def __init__(self, log, gathered):
        self.log, self.gathered = log, gathered

    def __setitem__(self, idx, value):
        self.log.append(("scatter", idx, value))

    def __getitem__(self, idx):
        self.log.append(("gather", idx))
        return self.gathered.copy()


def native_load(form):
    """the real add_lineLoad on the right edge of a QUAD4 / TRI6 plate (selection listed in reversed order) against the closed-form resultant and moment"""
    def run():
        import contextlib, io
        from EasyFEA import Models, Simulations, ElemType
        from EasyFEA.Geoms import Domain, Point
        out = dict(confirmed=False, cases=[])
        for et in ("QUAD4", "TRI6"):
            with contextlib.redirect_stdout(io.StringIO()):
                mesh = Domain(Point(), Point(1, 2), 0.5).Mesh_2D([], ElemType[et])
                simu = Simulations.Elastic(mesh, Models.Elastic.Isotropic(2, E=1.0, v=0.3, thickness=1.0))
            co = np.asarray(mesh.coord)
            nodes = np.where(np.isclose(co[:, 0], 1.0))[0][::-1]
            q = lambda y: 1.0 + 0.5 * y
            val = 2.5 if form == "constant" else ((lambda x, y, z: q(y)) if form == "function" else q(co[nodes, 1]))
            simu.add_lineLoad(nodes, [val], ["x"])
            Fv = simu.Bc_vector_Neumann()
            Fv = (np.asarray(Fv.todense()) if hasattr(Fv, "todense") else np.asarray(Fv)).ravel().reshape(-1, 2)[:, 0]
            R, M = float(Fv.sum()), float((Fv * co[:, 1]).sum())
            Rex, Mex = (5.0, 5.0) if form == "constant" else (2.0 + 0.25 * 4, 2.0 + 0.5 * 8 / 3)
            out["cases"].append(dict(elem=et, resultant=R, expected=Rex, moment=M, expected_moment=Mex))
            if abs(R - Rex) > 1e-9 or abs(M - Mex) > 1e-9:
                out["confirmed"] = True
        return out
    return run


@_guard
def ob_load_integration(nPe, nu, form, canary=False):
    """_Simu.__Bc_Integration_Dim for one element group, any number of selected elements, any number of integration points"""
    decl = dict(wJ=(NE, NPG), N=(NPG, 1, nPe), xg=(NE, NPG, 3), g=(NE, nPe), cn=(NE * nPe,))
    for u in range(nu):
        decl[f"f{u}"] = (NE, NPG)
        decl[f"dof{u}"] = (NE * nPe,)
    sp = gen.Space(decl)
    g, NPs, Fe = env(sp, "EasyFEA.Simulations._simu")
    log = []

    class NPx(type(NPs)):
        def zeros(self, shape, dtype=None, **k):
            if shape is NN:
                return _NodalVec(log, sp.arr("g"))
            return super().zeros(shape, dtype=dtype, **k)
    g["np"] = NPx(sp)
    elements = _Sel("elements", NE)
    nodes = _Sel("nodes", gen.Dim("Nsel"))
    conn = _ConnSel(sp.arr("cn"))
    unknowns = ["x", "y", "z"][:nu]
    group = sx.Mock("groupElem", nPe=nPe, connect=_ConnTable(elements, conn),
                    Get_Elements_Nodes=lambda nd, exclusively=True: elements if (nd is nodes and exclusively) else (_ for _ in ()).throw(Refuted("elements are not selected exclusively from the caller's nodes", signature="load:selection")),
                    Get_GaussCoordinates_e_pg=lambda mt, el=None: sp.arr("xg") if el is elements else (_ for _ in ()).throw(Unsupported("Gauss coordinates of other elements")),
                    Get_N_pg=lambda mt: sp.arr("N"),
                    Get_weightedJacobian_e_pg=lambda mt: _FieldOf(elements, sp.fe("wJ")))
    evals = []

    def bc_evaluate(coord, value, option="nodes"):
        evals.append((coord, value, option))
        u = len(evals) - 1
        return sp.arr(f"f{u}")
    dofcalls = []

    def bc_dofs_nodes(nd, unk, pt=None):
        dofcalls.append((nd, list(unk)))
        return sp.arr(f"dof{unknowns.index(unk[0])}")
    vals_arr = [_Sel(f"values{u}", nodes.shape[0]) for u in range(nu)]
    values = [2.5] * nu if form == "constant" else ([(lambda x, y, z: x)] * nu if form == "function" else vals_arr)
    me = sx.Mock("self", mesh=sx.Mock("mesh", Nn=NN, Get_list_groupElem=lambda d=None: [group]), Bc_dofs_nodes=bc_dofs_nodes, _Simu__Bc_evaluate=bc_evaluate)
    f = fn_of(SIMP, "_Simu.__Bc_Integration_Dim", g)
    dofsValues, dofs, used = f(me, 1, "pt", nodes, values, unknowns)
    wJ, N = sp.arr("wJ"), sp.arr("N")
    want = sp.full((NE * nPe, nu), 0)
    wdofs = sp.full((NE * nPe, nu), 0)
    for u in range(nu):
        if form == "array":
            dens = gen.einsum("en,pin->ep", sp.arr("g"), N)           # nodal values interpolated at the integration points
        else:
            dens = sp.arr(f"f{u}")
        col = gen.einsum("ep,ep,pin->en", wJ, dens, N)
        want[:, u] = col.ravel() * (2 if canary else 1)
        wdofs[:, u] = sp.arr(f"dof{u}")
    n = 0
    check(dofsValues, want.ravel(), f"nodal loads (nPe {nPe}, {nu} unknowns, {form} intensity): value at (element e, node n, unknown u) != sum_p wJ[e,p] f_u(x_p) N_n(p)", f"loadint:{form}:values",
          replay=None if canary else native_load(form))
    check(dofs, wdofs.ravel(), "dofs paired with the nodal loads != dof(connect[e, n], unknown u) in the same (e, n, u) order", f"loadint:{form}:dofs")
    check(used, sp.arr("cn"), "nodes reported as loaded != nodes of the selected elements", f"loadint:{form}:nodes")
    n += 3
    if form == "array":
        sc = [l for l in log if l[0] == "scatter"]
        ga = [l for l in log if l[0] == "gather"]
        if len(sc) != nu or len(ga) != nu:
            raise Refuted(f"nodal-array intensity: {len(sc)} scatters / {len(ga)} gathers for {nu} unknowns", signature="loadint:array:count")
        for u in range(nu):
            if sc[u][1] is not nodes or sc[u][2] is not vals_arr[u]:
                raise Refuted(f"nodal-array intensity of unknown {u}: the values are not written at the caller's nodes position by position (`table[nodes] = values[u]`)", signature="loadint:array:pairing")
            if ga[u][1] is not conn:
                raise Refuted("nodal-array intensity: the nodal table is not gathered with the connectivity of the selected elements", signature="loadint:array:gather")
        n += 2 * nu
    else:
        if len(evals) != nu or any(e[0] is None or e[2] != "gauss" for e in evals):
            raise Refuted("constant / function intensity is not evaluated at the Gauss points of the selected elements", signature="loadint:eval")
        for u, e in enumerate(evals):
            if gen.first_difference(sp.lift(e[0]), sp.arr("xg")) is not None or e[1] is not values[u]:
                raise Refuted(f"intensity of unknown {u} evaluated with other coordinates / another value than given", signature="loadint:eval:args")
        n += nu
    for u, (nd, unk) in enumerate(dofcalls[:nu]):
        if unk != [unknowns[u]] or gen.first_difference(sp.lift(nd), sp.arr("cn")) is not None:
            raise Refuted(f"dofs of unknown {unknowns[u]} are looked up for {unk} on other nodes than connect.ravel()", signature="loadint:dofs:args")
    return Verdict(DISCHARGED, backend=BACKEND, sub=n)


def load_obligations(prop, tier):
    obs = []
    for nPe in ((2, 3, 4) if tier == "quick" else (2, 3, 4, 5, 6, 8, 9, 10)):
        for nu in (1, 2, 3):
            for form in ("constant", "function", "array"):
                obs.append(Ob(f"{prop}.gp.integration.n{nPe}.u{nu}.{form}", ob_load_integration, (nPe, nu, form), "P", (f_(SIMP, "_Simu.__Bc_Integration_Dim"),),
                              clause="nodal load at (e, n, u) == sum_p wJ[e,p] f_u(x_p) N_n(p) (nodal arrays: interpolated through N, scattered at the caller's nodes position by position); "
                                     "dofs == dof(connect[e,n], u) in the same order; for all numbers of selected elements and integration points", timeout=300))
    for nPe in (2, 3, 4) + ((6, 8) if tier == "thorough" else ()):
        for selected in (False, True):
            obs.append(Ob(f"{prop}.gp.gausscoord.n{nPe}.{'selected' if selected else 'all'}", ob_gauss_coordinates, (nPe, selected), "P", (f_(GP, "_GroupElem.Get_GaussCoordinates_e_pg"),),
                          clause="x_g[e, p] == sum_n N_n(xi_p) x[e, n] for every element, or for the caller's selection in the caller's order; all Ne, nPg, any number of selected elements", timeout=300))
    obs.append(Ob(f"{prop}.gp.canary.integration", ob_load_integration, (3, 2, "constant", True), "P", expect=REFUTED, clause="twice the load must be refuted", timeout=120))
    return obs


# ---------------------------------------------------------------------------------------------- measures (C07) and point-wise post-processing (C16)

LAWP = "EasyFEA/Models/Elastic/_laws.py"


@_guard
def ob_measures(dim, canary=False):
    """_GroupElem.Integrate_e, length / area / volume (per element and total) and center, for all Ne, nPg"""
    sp = gen.Space(dict(wJ=(NE, NPG), x=(NE, NPG, 3), fx=(NE, NPG)), scalars=("k",))
    g, NPs, Fe = env(sp, "EasyFEA.FEM._group_elem")
    mts = []

    def wJ(mt):
        mts.append(mt)
        return sp.fe("wJ")
    me = sx.Mock("self", dim=dim, Get_weightedJacobian_e_pg=wJ, Get_GaussCoordinates_e_pg=lambda mt: sp.fe("x"))
    f = fn_of(GP, "_GroupElem.Integrate_e", g)
    w, x = sp.arr("wJ"), sp.arr("x")
    n = 0
    got = f(me, lambda X, Y, Z: X * X + 2 * Y - Z, "mass")
    check(got, gen.einsum("ep,ep->e", w, x[:, :, 0] * x[:, :, 0] + 2 * x[:, :, 1] - x[:, :, 2]), "Integrate_e(f) != sum_p wJ[e,p] f(x_p)", "measure:integrate")
    got = f(me, lambda X, Y, Z: 1, "rigi")
    check(got, gen.einsum("ep->e", w) * (2 if canary else 1), "Integrate_e(1) != sum_p wJ[e,p]", "measure:integrate:one")
    got = f(me, lambda X, Y, Z: sp.sym("k"), "rigi")
    check(got, gen.einsum("ep->e", w * sp.sym("k")), "Integrate_e(constant) != constant sum_p wJ[e,p]", "measure:integrate:const")
    n += 3
    if bool(getattr(got, "fe", False)):
        raise Refuted("Integrate_e returns a field", signature="measure:type")
    # per-element and total measures through the properties of the real class (fget from the AST)
    name = {1: "length", 2: "area", 3: "volume"}[dim]
    me2 = sx.Mock("self", dim=dim, Integrate_e=lambda func=None, matrixType=None: gen.einsum("ep->e", w) if func(0, 0, 0) == 1 else (_ for _ in ()).throw(Refuted("the measure integrates something else than 1", signature="measure:integrand")))
    per = fn_of(GP, f"_GroupElem.{name}_e", g)
    per = per.fget if isinstance(per, property) else per
    got_e = per(me2)
    check(got_e, gen.einsum("ep->e", w), f"{name}_e != sum_p wJ[e,p]", f"measure:{name}_e")
    tot = fn_of(GP, f"_GroupElem.{name}", g)
    tot = tot.fget if isinstance(tot, property) else tot
    me3 = sx.Mock("self", dim=dim, **{f"{name}_e": gen.einsum("ep->e", w)})
    got_t = sp.lift(tot(me3))
    check(got_t, gen.einsum("ep->", w), f"{name} != sum_e sum_p wJ[e,p]", f"measure:{name}")
    for other in ("length", "area", "volume"):
        if other != name:
            o = fn_of(GP, f"_GroupElem.{other}", g)
            o = o.fget if isinstance(o, property) else o
            if o(sx.Mock("self", dim=dim)) is not None:
                raise Refuted(f"{other} of a {dim}-dimensional group is not None", signature="measure:other")
    n += 4
    cen = fn_of(GP, "_GroupElem.center", g)
    cen = cen.fget if isinstance(cen, property) else cen
    got_c = sp.lift(cen(me))
    size = gen.einsum("ep->", w).data[()]
    num = gen.einsum("ep,epi->i", w, x)
    if tuple(got_c.shape) != (3,):
        raise Refuted(f"center has shape {got_c.shape}", signature="measure:center:shape")
    for i in range(3):
        if not (got_c.data[i] == gen.Quot(sp, num.data[i], size)):
            raise Refuted(f"center[{i}] = {got_c.data[i]!r} is not (sum wJ x_{i}) / (sum wJ)", signature="measure:center")
    n += 3
    return Verdict(DISCHARGED, backend=BACKEND + "; quotients of complete integrals kept formal", sub=n)


@_guard
def ob_pointwise_elastic(dim, nPe, hetero, canary=False):
    """_Elastic.Calc_Epsilon_e_pg == B u_e, Calc_Sigma_e_pg == C eps (homogeneous or heterogeneous C), Calc_Psi_e_pg == 1/2 sigma . eps at the generic (e, p)"""
    ns = {2: 3, 3: 6}[dim]
    nd = nPe * dim
    sp = gen.Space(dict(B=(NE, NPG, ns, nd), ue=(NE, nd), C0=(ns, ns), Cep=(NE, NPG, ns, ns), eps=(NE, NPG, ns), sig=(NE, NPG, ns)))
    g, NPs, Fe = env(sp, "EasyFEA.Models.Elastic._laws")
    grp = sx.Mock("groupElem", Get_B_e_pg=lambda mt: sp.fe("B"),
                  Locates_sol_e=lambda sol, asFeArray=False: (GFe._wrap(sp.arr("ue")[:, None]) if asFeArray else sp.arr("ue")) if sol == "u" else (_ for _ in ()).throw(Unsupported("another solution vector")))
    n = 0
    f = fn_of(LAWP, "_Elastic.Calc_Epsilon_e_pg", g)
    me = sx.Mock("self")
    got = f(me, "u", grp, "rigi")
    check(got, gen.einsum("epij,ej->epi", sp.arr("B"), sp.arr("ue")), "Calc_Epsilon_e_pg != B[e,p] u_e", f"pointwise:eps:{dim}")
    if not bool(getattr(got, "fe", False)):
        raise Refuted("Calc_Epsilon_e_pg does not return a field", signature="pointwise:eps:type")
    n += ns
    C = sp.arr("Cep") if hetero else sp.arr("C0")
    me = sx.Mock("self", C=C, isHeterogeneous=hetero)
    fs = fn_of(LAWP, "_Elastic.Calc_Sigma_e_pg", g)
    got = fs(me, sp.arr("eps"))
    want = gen.einsum("epij,epj->epi", sp.arr("Cep"), sp.arr("eps")) if hetero else gen.einsum("ij,epj->epi", sp.arr("C0"), sp.arr("eps"))
    check(got, want + (want if canary else 0), "Calc_Sigma_e_pg != C[e,p] eps[e,p]", f"pointwise:sig:{dim}:{hetero}")
    n += ns
    fp = fn_of(LAWP, "_Elastic.Calc_Psi_e_pg", g)
    me = sx.Mock("self", C=C, isHeterogeneous=hetero, Calc_Sigma_e_pg=lambda e: GFe._wrap(want))
    got = fp(me, sp.arr("eps"))
    check(got, gen.einsum("epi,epi->ep", want, sp.arr("eps")) * F(1, 2), "Calc_Psi_e_pg != 1/2 (C eps) . eps", f"pointwise:psi:{dim}:{hetero}")
    got = fp(me, sp.arr("eps"), sp.fe("sig"))
    check(got, gen.einsum("epi,epi->ep", sp.arr("sig"), sp.arr("eps")) * F(1, 2), "Calc_Psi_e_pg(eps, sigma) != 1/2 sigma . eps", f"pointwise:psi:given:{dim}")
    n += 2
    return Verdict(DISCHARGED, backend=BACKEND, sub=n)


def measure_obligations(prop, tier):
    return [Ob(f"{prop}.gp.measures.{dim}d", ob_measures, (dim,), "P", tuple(f_(GP, f"_GroupElem.{q}") for q in ("Integrate_e", "length_e", "length", "area_e", "area", "volume_e", "volume", "center")),
               clause="Integrate_e(f) == sum_p wJ f(x_p); length / area / volume == sum_e sum_p wJ for the group's dimension (None otherwise); center == (sum wJ x) / (sum wJ); for all Ne, nPg", timeout=300)
            for dim in (1, 2, 3)] + [Ob(f"{prop}.gp.canary.measures", ob_measures, (2, True), "P", expect=REFUTED, clause="twice the measure must be refuted", timeout=120)]


def pointwise_obligations(prop, tier):
    obs = [Ob(f"{prop}.gp.canary.pointwise", ob_pointwise_elastic, (2, 3, False, True), "P", expect=REFUTED, clause="twice the stress must be refuted", timeout=120)]
    for dim, nPe in shapes(tier, 24):
        if dim >= 2:
            for hetero in (False, True):
                obs.append(Ob(f"{prop}.gp.pointwise.{dim}d.n{nPe}.{'hetero' if hetero else 'homogeneous'}", ob_pointwise_elastic, (dim, nPe, hetero), "P",
                              tuple(f_(LAWP, f"_Elastic.{q}") for q in ("Calc_Epsilon_e_pg", "Calc_Sigma_e_pg", "Calc_Psi_e_pg")),
                              clause="strain == B u_e, stress == C strain (C homogeneous or a field), energy density == 1/2 stress . strain at every (e, p), for all Ne, nPg", timeout=300))
    return obs


# ---------------------------------------------------------------------------------------------- weak forms (C13)

FORMP = "EasyFEA/FEM/_forms.py"


class _FieldStub:
    """a Field as the form integrator sees it: activation of one (node, dof) pair, copy, group, dofs per node, quadrature"""

    def __init__(self, name, group, dof_n, mt, log):
        self.name, self.groupElem, self.dof_n, self.matrixType, self.log = name, group, dof_n, mt, log
        self.node = self.dof = None

    def copy(self):
        c = _FieldStub(self.name + "'", self.groupElem, self.dof_n, self.matrixType, self.log)
        self.log.append(("copy", self.name))
        return c

    def _Set_current_active_node(self, n):
        self.node = int(n)

    def _Set_current_active_dof(self, d):
        self.dof = int(d)


@_guard
def ob_form_integrate(kind, nPe, dof_n, trailing, canary=False):
    """BiLinearForm / LinearForm.Integrate_e with an arbitrary user form: the form is called once for every trial x test (node, dof) pair (once per test pair), its value at the
    generic (e, p) is weighted by wJ of the field's quadrature and summed over p, and the result is stored with the TEST function on the rows"""
    nd = nPe * dof_n
    decl = dict(wJ=(NE, NPG))
    keys = [(a, b) for a in range(nd) for b in (range(nd) if kind == "bilinear" else (0,))]
    for a, b in keys:
        decl[f"v{a}_{b}"] = (NE, NPG)
    sp = gen.Space(decl)
    g, NPs, Fe = env(sp, "EasyFEA.FEM._forms")
    g["np"] = type("NPf", (type(NPs),), dict(arange=staticmethod(np.arange)))(sp)
    log, mts = [], []

    def wJ(mt):
        mts.append(mt)
        return sp.fe("wJ")
    grp = sx.Mock("groupElem", nPe=nPe, Ne=NE, Get_weightedJacobian_e_pg=wJ)
    fld = _FieldStub("u", grp, dof_n, "the field's quadrature", log)
    calls = []

    def idx(f):
        if f.node is None or f.dof is None:
            raise Refuted("the form is evaluated before a (node, dof) pair is activated", signature="form:activation")
        return f.node * f.dof_n + f.dof

    def form2(u, v):
        if u is v:
            raise Refuted("trial and test field are the same object: activating one would activate the other", signature="form:alias")
        a, b = idx(u), idx(v)
        calls.append((a, b))
        r = sp.fe(f"v{a}_{b}")
        return GFe._wrap(GA(sp, r.shape, r.data)[:, :, None]) if trailing else r

    def form1(v):
        a = idx(v)
        calls.append((a, 0))
        r = sp.fe(f"v{a}_0")
        return GFe._wrap(GA(sp, r.shape, r.data)[:, :, None]) if trailing else r
    cls = "BiLinearForm" if kind == "bilinear" else "LinearForm"
    me = sx.Mock("self", _form=form2 if kind == "bilinear" else form1)
    got = fn_of(FORMP, f"{cls}.Integrate_e", g)(me, fld)
    if sorted(calls) != sorted(keys):
        raise Refuted(f"{cls}.Integrate_e evaluates the form for {len(calls)} (trial, test) pairs, {len(set(calls))} distinct, expected each of the {len(keys)} pairs once", signature="form:pairs")
    if mts != ["the field's quadrature"]:
        raise Refuted(f"the weights are taken for {mts}, not for the quadrature of the field", signature="form:quadrature")
    w = sp.arr("wJ")
    if kind == "bilinear":
        want = sp.full((NE, nd, nd), 0)
        for a, b in keys:               # a: trial (u), b: test (v)  ->  row b, column a
            want[:, b, a] = gen.einsum("ep,ep->e", sp.arr(f"v{a}_{b}"), w) * (2 if canary else 1)
    else:
        want = sp.full((NE, nd, 1), 0)
        for a, _ in keys:
            want[:, a, 0] = gen.einsum("ep,ep->e", sp.arr(f"v{a}_0"), w)
    check(got, want, f"{cls}.Integrate_e (nPe {nPe}, dof_n {dof_n}): entry [test j, trial i] != sum_p form(u_i, v_j)[e,p] wJ[e,p]", f"form:integrate:{kind}")
    return Verdict(DISCHARGED, backend=BACKEND, sub=len(keys))


def form_obligations(prop, tier):
    obs = []
    for kind in ("bilinear", "linear"):
        for nPe, dof_n in ((2, 1), (3, 1), (3, 2), (4, 2), (4, 3)) + (((6, 2), (8, 3), (10, 3)) if tier == "thorough" else ()):
            for trailing in (False, True):
                obs.append(Ob(f"{prop}.gp.form.{kind}.n{nPe}.dof{dof_n}{'.unitaxis' if trailing else ''}", ob_form_integrate, (kind, nPe, dof_n, trailing), "P",
                              (f_(FORMP, f"{'BiLinearForm' if kind == 'bilinear' else 'LinearForm'}.Integrate_e"),),
                              clause="an arbitrary form is evaluated once per (trial, test) pair of activated (node, dof), weighted by wJ of the field's quadrature, summed over the integration points "
                                     "and stored with the test function on the rows; for all Ne, nPg", timeout=300))
    obs.append(Ob(f"{prop}.gp.canary.form", ob_form_integrate, ("bilinear", 2, 1, False, True), "P", expect=REFUTED, clause="twice the integral must be refuted", timeout=120))
    return obs


# ---------------------------------------------------------------------------------------------- phase-field splits without eigen-decomposition (C17)

PFM = "EasyFEA/Models/_phasefield.py"


class _Iso:      # stands for Models.Elastic.Isotropic in isinstance tests
    pass


@_guard
def ob_pf_pointwise(dim, canary=False):
    """PhaseField.Calc_Sigma_e_pg / Calc_psi_e_pg for ANY split (Calc_C by its contract: two arbitrary matrix fields): sigma+- == c+- eps, psi+- == 1/2 eps . sigma+-"""
    ns = {2: 3, 3: 6}[dim]
    sp = gen.Space(dict(eps=(NE, NPG, ns), cP=(NE, NPG, ns, ns), cM=(NE, NPG, ns, ns)))
    g, NPs, Fe = env(sp, "EasyFEA.Models._phasefield")
    me = sx.Mock("self", Calc_C=lambda e, verif=False: (sp.fe("cP"), sp.fe("cM")))
    eps = sp.arr("eps")
    sP, sM = fn_of(PFM, "PhaseField.Calc_Sigma_e_pg", g)(me, sp.fe("eps"))
    wP, wM = gen.einsum("epij,epj->epi", sp.arr("cP"), eps), gen.einsum("epij,epj->epi", sp.arr("cM"), eps)
    check(sP, wP * (2 if canary else 1), "SigmaP != cP eps", f"pf:sigma:P:{dim}")
    check(sM, wM, "SigmaM != cM eps", f"pf:sigma:M:{dim}")
    me2 = sx.Mock("self", Calc_Sigma_e_pg=lambda e: (GFe._wrap(wP), GFe._wrap(wM)))
    pP, pM = fn_of(PFM, "PhaseField.Calc_psi_e_pg", g)(me2, sp.fe("eps"))
    check(pP, gen.einsum("epi,epi->ep", eps, wP) * F(1, 2), "psiP != 1/2 eps . SigmaP", f"pf:psi:P:{dim}")
    check(pM, gen.einsum("epi,epi->ep", eps, wM) * F(1, 2), "psiM != 1/2 eps . SigmaM", f"pf:psi:M:{dim}")
    return Verdict(DISCHARGED, backend=BACKEND, sub=4)


@_guard
def ob_pf_split(split, dim, hetero, sgn):
    """Bourdin / Amor splits at the generic (e, p): cP + cM == C of the material; Amor: the spherical part goes to cP where tr eps > 0 and to cM where tr eps < 0, the deviatoric part to cP"""
    from EasyFEA.Models._phasefield import PhaseField as RealPF
    ns = {2: 3, 3: 6}[dim]
    decl = dict(eps=(NE, NPG, ns), C0=(ns, ns), Cep=(NE, NPG, ns, ns), mue=(NE,), bulke=(NE,))
    sp = gen.Space(decl, scalars=("mu", "bulk"))
    # witness: make the trace of the strain positive / negative
    tr = sum(sp.arr("eps").data[0, 0, i] for i in range(dim))
    if sp.const(tr).sign() != sgn:
        for i in range(dim):
            nm = f"eps_{i}"
            sp.ctx.witness[nm] = -sp.ctx.witness[nm]
        sp2 = gen.Space(decl, scalars=("mu", "bulk"))
        sp2.ctx.witness.update(sp.ctx.witness)
        # rebuild the generators with the flipped witness
        from vt.alg import Ctx
        sp2.ctx = Ctx(sp2.ctx.names, nspare=4, witness=sp.ctx.witness)
        sp = sp2
        tr = sum(sp.arr("eps").data[0, 0, i] for i in range(dim))
        if sp.const(tr).sign() != sgn:
            raise Unsupported("could not choose a witness with the requested sign of the trace")
    g, NPs, Fe = env(sp, "EasyFEA.Models._phasefield", Isotropic=_Iso)
    IxI = np.asarray(RealPF._PhaseField__Build_IxI(dim))
    if split == "Bourdin":
        mat = sx.Mock("material", C=sp.arr("Cep") if hetero else sp.arr("C0"))
        me = sx.Mock("self", _PhaseField__material=mat, isHeterogeneous=hetero)
        cP, cM = fn_of(PFM, "PhaseField.__Split_Bourdin", g)(me, NE, NPG)
        Cfull = sp.arr("Cep") if hetero else gen.einsum("ij,ep->epij", sp.arr("C0"), sp.full((NE, NPG), 1))
        full = lambda a: gen._bto(_plain(a), (NE, NPG, ns, ns))          # a field held at every (e, p) may be stored once
        check(full(cP) + full(cM), Cfull, "Bourdin: cP + cM != C", f"pf:bourdin:{dim}:{hetero}")
        check(full(cM), sp.full((NE, NPG, ns, ns), 0), "Bourdin: cM != 0", f"pf:bourdin:M:{dim}")
        return Verdict(DISCHARGED, backend=BACKEND, sub=2)

    class Mat(sx.Mock, _Iso):
        pass
    mu = sp.arr("mue") if hetero else sp.sym("mu")
    bulk = sp.arr("bulke") if hetero else sp.sym("bulk")
    mat = Mat("material", dim=dim, get_mu=lambda: mu, get_bulk=lambda: bulk, isHeterogeneous=hetero)
    me = sx.Mock("self", _PhaseField__material=mat, _PhaseField__Build_IxI=lambda d: sp.lift(np.rint(IxI).astype(int)))
    me._PhaseField__Rp_Rm = lambda v: fn_of(PFM, "PhaseField.__Rp_Rm", g)(me, v)
    cP, cM = fn_of(PFM, "PhaseField.__Split_Amor", g)(me, sp.fe("eps"))
    one = sp.full((NE, NPG), 1)
    muf = gen.einsum("e,ep->ep", sp.arr("mue"), one) if hetero else sp.full((NE, NPG), sp.sym("mu"))
    bkf = gen.einsum("e,ep->ep", sp.arr("bulke"), one) if hetero else sp.full((NE, NPG), sp.sym("bulk"))
    m_ = np.array([1] * dim + [0] * (ns - dim))
    if not np.array_equal(IxI, np.outer(m_, m_)):
        raise Refuted(f"__Build_IxI({dim}) is not the Kelvin-Mandel image of I (x) I", signature="pf:IxI", replay=dict(confirmed=True))
    Ix = sp.lift(np.rint(IxI).astype(int))
    Id = sp.lift(np.eye(ns, dtype=int))
    sph = gen.einsum("ep,ij->epij", bkf, Ix)
    dev = gen.einsum("ep,ij->epij", muf * 2, Id - Ix * F(1, dim))
    wantP = (sph if sgn > 0 else sph * 0) + dev
    wantM = sph * 0 if sgn > 0 else sph
    full = lambda a: gen._bto(_plain(a), (NE, NPG, ns, ns))
    check(full(cP), wantP, f"Amor (tr eps {'>' if sgn > 0 else '<'} 0): cP", f"pf:amor:P:{dim}:{sgn}")
    check(full(cM), wantM, f"Amor (tr eps {'>' if sgn > 0 else '<'} 0): cM", f"pf:amor:M:{dim}:{sgn}")
    return Verdict(DISCHARGED, backend=BACKEND + "; sign of the trace decided at the witness (both signs run)", sub=2)


def phasefield_obligations(prop, tier):
    obs = []
    for dim in (2, 3):
        obs.append(Ob(f"{prop}.gp.pointwise.{dim}d", ob_pf_pointwise, (dim,), "P", (f_(PFM, "PhaseField.Calc_Sigma_e_pg"), f_(PFM, "PhaseField.Calc_psi_e_pg")),
                      clause="for any split: SigmaP/M == cP/M eps and psiP/M == 1/2 eps . SigmaP/M at every (e, p), for all Ne, nPg", timeout=300))
        for hetero in (False, True):
            obs.append(Ob(f"{prop}.gp.split.Bourdin.{dim}d{'.hetero' if hetero else ''}", ob_pf_split, ("Bourdin", dim, hetero, 1), "P", (f_(PFM, "PhaseField.__Split_Bourdin"),),
                          clause="cP == C, cM == 0, for all Ne, nPg", timeout=300))
            for sgn in (1, -1):
                obs.append(Ob(f"{prop}.gp.split.Amor.{dim}d{'.hetero' if hetero else ''}.{'tension' if sgn > 0 else 'compression'}", ob_pf_split, ("Amor", dim, hetero, sgn), "P",
                              (f_(PFM, "PhaseField.__Split_Amor"), f_(PFM, "PhaseField.__Rp_Rm")),
                              clause="cP == [tr eps > 0] K IxI + 2 mu (I - IxI / dim), cM == [tr eps < 0] K IxI (so cP + cM == C), for all Ne, nPg, homogeneous or per-element moduli", timeout=300))
    obs.append(Ob(f"{prop}.gp.canary.pointwise", ob_pf_pointwise, (2, True), "P", expect=REFUTED, clause="twice the stress must be refuted", timeout=120))
    return obs


# ---------------------------------------------------------------------------------------------- hyperelastic residual / tangent operator (C18)

NLP = "EasyFEA/FEM/Operators/NonLinear.py"
MUP = "EasyFEA/Models/_utils.py"


@_guard
def ob_pk2_operator(dim, nPe, canary=False):
    """NonLinear.SecondPiolaKirchhoffStressTensor with its private helpers (__block_grad_B, __geometric_tangent, __second_piola_block, __reorder_dofs) and
    Project_vector_to_matrix, all from the AST: for an arbitrary kinematic operator De, stress vector S and tangent D at the generic (e, p)
        R[(n,k)]        == t sum_p wJ sum_s S_s Bt[s,(n,k)],          Bt[s,(n,k)] = sum_j De[s,(k,j)] dN[j,n]
        K[(n,k),(m,l)]  == t sum_p wJ ( Bt^T D Bt + delta_kl dN_n . Smat . dN_m )
    in the interleaved dof order (x1, y1, z1, ..., xn, yn, zn)"""
    ns = {2: 3, 3: 6}[dim]
    sp = gen.Space(dict(wJ=(NE, NPG), dN=(NE, NPG, dim, nPe), De=(NE, NPG, ns, dim * dim), S=(NE, NPG, ns), D=(NE, NPG, ns, ns)), scalars=("t",))
    g, NPs, Fe = env(sp, "EasyFEA.FEM.Operators.NonLinear")
    g["np"] = type("NPn", (type(NPs),), dict(arange=staticmethod(np.arange)))(sp)
    gu, _, _ = env(sp, "EasyFEA.Models._utils")
    gu["FeArray"], gu["np"] = g["FeArray"], g["np"]
    exact_sqrt2 = sp.ctx.sqrt_rational(F(2))
    pvm = extract.compile_fn(extract.get(MUP, "Project_vector_to_matrix"), gu)
    g["Project_vector_to_matrix"] = lambda v, coef=None: pvm(v, exact_sqrt2 if coef is None else coef)     # the default argument np.sqrt(2) read exactly
    fns = module_fns(NLP, g, ["einsum", "__block_grad_B", "__geometric_tangent", "__reorder", "__reorder_dofs", "__second_piola_block", "SecondPiolaKirchhoffStressTensor"])
    grp = sx.Mock("groupElem", Ne=NE, dim=dim, nPe=nPe, Get_dN_e_pg=lambda mt: sp.fe("dN"), Get_weightedJacobian_e_pg=lambda mt: sp.fe("wJ"))
    state = sx.Mock("state", groupElem=grp, matrixType="rigi", Compute_De=lambda: sp.fe("De"))
    mat = sx.Mock("material", thickness=sp.sym("t"), Compute_dWde=lambda st: sp.fe("S"), Compute_d2Wde=lambda st: sp.fe("D"))
    K, R = fns["SecondPiolaKirchhoffStressTensor"](mat, state)
    wJ, dN, De, S, D = (sp.arr(k) for k in ("wJ", "dN", "De", "S", "D"))
    t = sp.sym("t") if dim == 2 else 1
    nd = nPe * dim
    # Bt[s, n*dim + k] = sum_j De[s, k*dim + j] dN[j, n]
    De4 = De.reshape(NE, NPG, ns, dim, dim)
    Bt = gen.einsum("epskj,epjn->epsnk", De4, dN).reshape(NE, NPG, ns, nd)
    wantR = gen.einsum("ep,eps,epsa->ea", wJ, S, Bt) * t
    Smat = sp.full((NE, NPG, dim, dim), 0)
    pairs = {2: [(0, 1, 2)], 3: [(1, 2, 3), (0, 2, 4), (0, 1, 5)]}[dim]
    for d in range(dim):
        Smat[:, :, d, d] = S[:, :, d]
    for i, j, k in pairs:
        Smat[:, :, i, j] = S[:, :, k] / exact_sqrt2
        Smat[:, :, j, i] = S[:, :, k] / exact_sqrt2
    geo = gen.einsum("ep,epan,epac,epcm->enm", wJ, dN, Smat, dN)               # (Ne, nPe, nPe)
    Kgeo = gen.einsum("enm,kl->enkml", geo, sp.lift(np.eye(dim, dtype=int))).reshape(NE, nd, nd)
    wantK = (gen.einsum("ep,epsa,epsr,eprb->eab", wJ, Bt, D, Bt) + Kgeo) * t
    if canary:
        wantK = wantK + Kgeo
    check(R, wantR, f"residual of the PK2 operator (dim {dim}, nPe {nPe})", f"pk2:R:{dim}:{nPe}")
    check(K, wantK, f"tangent of the PK2 operator (dim {dim}, nPe {nPe}): material + geometric part, interleaved dofs", f"pk2:K:{dim}:{nPe}")
    return Verdict(DISCHARGED, backend=BACKEND, sub=nd * nd + nd)


@_guard
def ob_active_stress_operator(dim, nPe):
    """NonLinear.ActiveStressTensor: R == t sum_p wJ B^T Sigma_act, K == t sum_p wJ I (x) dN^T Smat dN (no material part), interleaved dofs; (None, None) when the law carries no active stress"""
    ns = {2: 3, 3: 6}[dim]
    sp = gen.Space(dict(wJ=(NE, NPG), dN=(NE, NPG, dim, nPe), De=(NE, NPG, ns, dim * dim), S=(NE, NPG, ns)), scalars=("t",))
    g, NPs, Fe = env(sp, "EasyFEA.FEM.Operators.NonLinear")
    g["np"] = type("NPn", (type(NPs),), dict(arange=staticmethod(np.arange), all=staticmethod(np.all)))(sp)
    gu, _, _ = env(sp, "EasyFEA.Models._utils")
    gu["FeArray"], gu["np"] = g["FeArray"], g["np"]
    r2 = sp.ctx.sqrt_rational(F(2))
    pvm = extract.compile_fn(extract.get(MUP, "Project_vector_to_matrix"), gu)
    g["Project_vector_to_matrix"] = lambda v, coef=None: pvm(v, r2 if coef is None else coef)
    fns = module_fns(NLP, g, ["einsum", "__block_grad_B", "__geometric_tangent", "__reorder", "__reorder_dofs", "ActiveStressTensor"])
    grp = sx.Mock("groupElem", Ne=NE, dim=dim, nPe=nPe, Get_dN_e_pg=lambda mt: sp.fe("dN"), Get_weightedJacobian_e_pg=lambda mt: sp.fe("wJ"))
    state = sx.Mock("state", groupElem=grp, matrixType="rigi", Compute_De=lambda: sp.fe("De"))
    off = sx.Mock("material", thickness=sp.sym("t"), active_stress=0.0)
    if fns["ActiveStressTensor"](off, state) != (None, None):
        raise Refuted("a law without active stress contributes something", signature="active:none")
    mat = sx.Mock("material", thickness=sp.sym("t"), active_stress=1.5, Compute_active_stress=lambda st: sp.fe("S"))
    K, R = fns["ActiveStressTensor"](mat, state)
    wJ, dN, De, S = (sp.arr(k) for k in ("wJ", "dN", "De", "S"))
    t = sp.sym("t") if dim == 2 else 1
    nd = nPe * dim
    Bt = gen.einsum("epskj,epjn->epsnk", De.reshape(NE, NPG, ns, dim, dim), dN).reshape(NE, NPG, ns, nd)
    Smat = sp.full((NE, NPG, dim, dim), 0)
    for d in range(dim):
        Smat[:, :, d, d] = S[:, :, d]
    for i, j, k in {2: [(0, 1, 2)], 3: [(1, 2, 3), (0, 2, 4), (0, 1, 5)]}[dim]:
        Smat[:, :, i, j] = S[:, :, k] / r2
        Smat[:, :, j, i] = S[:, :, k] / r2
    geo = gen.einsum("ep,epan,epac,epcm->enm", wJ, dN, Smat, dN)
    wantK = gen.einsum("enm,kl->enkml", geo, sp.lift(np.eye(dim, dtype=int))).reshape(NE, nd, nd) * t
    check(R, gen.einsum("ep,eps,epsa->ea", wJ, S, Bt) * t, f"residual of the active-stress operator (dim {dim}, nPe {nPe})", f"active:R:{dim}:{nPe}")
    check(K, wantK, f"geometric tangent of the active-stress operator (dim {dim}, nPe {nPe})", f"active:K:{dim}:{nPe}")
    return Verdict(DISCHARGED, backend=BACKEND, sub=nd * nd + nd + 1)


def _nl_env(sp):
    g, NPs, Fe = env(sp, "EasyFEA.FEM.Operators.NonLinear")
    g["np"] = type("NPn", (type(NPs),), dict(arange=staticmethod(np.arange), all=staticmethod(np.all)))(sp)
    gu, _, _ = env(sp, "EasyFEA.Models._utils")
    gu["FeArray"], gu["np"] = g["FeArray"], g["np"]
    r2 = sp.ctx.sqrt_rational(F(2))
    pvm = extract.compile_fn(extract.get(MUP, "Project_vector_to_matrix"), gu)
    g["Project_vector_to_matrix"] = lambda v, coef=None: pvm(v, r2 if coef is None else coef)
    return g, r2


def _nl_pieces(sp, dim, nPe, r2, De, dN, S):
    """Bt = De grad in the interleaved dof order, matrix of the Kelvin-Mandel vector S, and the geometric block I (x) dN^T Smat dN (not yet integrated)"""
    ns = {2: 3, 3: 6}[dim]
    nd = nPe * dim
    Bt = gen.einsum("epskj,epjn->epsnk", De.reshape(NE, NPG, ns, dim, dim), dN).reshape(NE, NPG, ns, nd)
    Smat = sp.full((NE, NPG, dim, dim), 0)
    for d in range(dim):
        Smat[:, :, d, d] = S[:, :, d]
    for i, j, k in {2: [(0, 1, 2)], 3: [(1, 2, 3), (0, 2, 4), (0, 1, 5)]}[dim]:
        Smat[:, :, i, j] = S[:, :, k] / r2
        Smat[:, :, j, i] = S[:, :, k] / r2
    return Bt, Smat


@_guard
def ob_kelvin_voigt_operator(dim, nPe):
    """NonLinear.KelvinVoigtDamping: C == t eta sum_p wJ B^T B, R == t eta sum_p wJ B^T Edot, K == t (eta sum_p wJ B^T (Deta grad) + geometric block of eta Edot); nothing when eta == 0 or no velocity"""
    ns = {2: 3, 3: 6}[dim]
    sp = gen.Space(dict(wJ=(NE, NPG), dN=(NE, NPG, dim, nPe), De=(NE, NPG, ns, dim * dim), Dt=(NE, NPG, ns, dim * dim), Ed=(NE, NPG, ns)), scalars=("t", "eta"))
    g, r2 = _nl_env(sp)
    fns = module_fns(NLP, g, ["einsum", "__block_grad_B", "__geometric_tangent", "__reorder", "__reorder_dofs", "KelvinVoigtDamping"])
    grp = sx.Mock("groupElem", Ne=NE, dim=dim, nPe=nPe, Get_dN_e_pg=lambda mt: sp.fe("dN"), Get_weightedJacobian_e_pg=lambda mt: sp.fe("wJ"))
    vel = object()
    chk = lambda v: None if v is vel else (_ for _ in ()).throw(Refuted("the state is asked for the rate of another velocity", signature="kv:velocity"))
    state = sx.Mock("state", groupElem=grp, matrixType="rigi", Compute_De=lambda: sp.fe("De"),
                    Compute_Deta=lambda v: (chk(v), sp.fe("Dt"))[1], Compute_Edot_vec=lambda v: (chk(v), sp.fe("Ed"))[1])
    if fns["KelvinVoigtDamping"](sx.Mock("material", eta=0.0, thickness=sp.sym("t")), state, vel) != (None, None, None):
        raise Refuted("a law without viscosity contributes something", signature="kv:none")
    mat = sx.Mock("material", eta=sp.sym("eta"), thickness=sp.sym("t"))
    if fns["KelvinVoigtDamping"](mat, state, None) != (None, None, None):
        raise Refuted("a quasi-static evaluation (no velocity) contributes something", signature="kv:novel")
    K, R, C = fns["KelvinVoigtDamping"](mat, state, vel)
    wJ, dN, De, Dt, Ed = (sp.arr(k) for k in ("wJ", "dN", "De", "Dt", "Ed"))
    t, eta = (sp.sym("t") if dim == 2 else 1), sp.sym("eta")
    nd = nPe * dim
    Bt, Smat = _nl_pieces(sp, dim, nPe, r2, De, dN, Ed * eta)
    beta, _ = _nl_pieces(sp, dim, nPe, r2, Dt, dN, Ed)
    geo = gen.einsum("ep,epan,epac,epcm->enm", wJ, dN, Smat, dN)
    Kgeo = gen.einsum("enm,kl->enkml", geo, sp.lift(np.eye(dim, dtype=int))).reshape(NE, nd, nd)
    check(C, gen.einsum("ep,epsa,epsb->eab", wJ, Bt, Bt) * (t * eta), "damping matrix != t eta sum wJ B^T B", f"kv:C:{dim}:{nPe}")
    check(R, gen.einsum("ep,epsa,eps->ea", wJ, Bt, Ed) * (t * eta), "viscous residual != t eta sum wJ B^T Edot", f"kv:R:{dim}:{nPe}")
    check(K, (gen.einsum("ep,epsa,epsb->eab", wJ, Bt, beta) * eta + Kgeo) * t, "configuration tangent of the viscous force", f"kv:K:{dim}:{nPe}")
    return Verdict(DISCHARGED, backend=BACKEND, sub=2 * nd * nd + nd + 2)


@_guard
def ob_gonzalez_energy(dim, nPe, consistent):
    """NonLinear.GonzalezStressTensor from the AST with arbitrary energies W_n, W_{n+1}, midpoint stress / tangent and strain increment dE at the generic (e, p):
        R == t sum_p wJ B_mid^T S_hat,   S_hat = s_mid + alpha dE,   alpha = (dW - s_mid . dE) / (dE . dE)
    and (exact rational identity) S_hat . dE == dW.  With the identity of the Green-Lagrange strain E(u_{n+1}) - E(u_n) == B(u_mid) du (C18.kin) this is
    R . du == t sum_p wJ (W_{n+1} - W_n): the discrete gradient conserves ANY stored energy, for every element, every number of integration points, every step"""
    ns = {2: 3, 3: 6}[dim]
    nd = nPe * dim
    sp = gen.Space(dict(wJ=(NE, NPG), dN=(NE, NPG, dim, nPe), Dm=(NE, NPG, ns, dim * dim), Dp=(NE, NPG, ns, dim * dim), En=(NE, NPG, ns), dE=(NE, NPG, ns),
                        sm=(NE, NPG, ns), sp1=(NE, NPG, ns), Cm=(NE, NPG, ns, ns), Wn=(NE, NPG), Wp=(NE, NPG)), scalars=("t",))
    g, r2 = _nl_env(sp)
    gu, _, _ = env(sp, "EasyFEA.Models._utils")
    gu["FeArray"], gu["np"] = g["FeArray"], g["np"]
    pmv = extract.compile_fn(extract.get(MUP, "Project_matrix_to_vector"), gu)
    g["Project_matrix_to_vector"] = lambda m, coef=None: pmv(m, r2 if coef is None else coef)
    fns = module_fns(NLP, g, ["einsum", "__block_grad_B", "__geometric_tangent", "__reorder", "__reorder_dofs", "__second_piola_block", "GonzalezStressTensor"])
    wJ, dN, Dm, En, dE = (sp.arr(k) for k in ("wJ", "dN", "Dm", "En", "dE"))
    Btm, _ = _nl_pieces(sp, dim, nPe, r2, Dm, dN, En)
    Ep = En + dE

    def mat(v):
        M = sp.full((NE, NPG, dim, dim), 0)
        for d in range(dim):
            M[:, :, d, d] = v[:, :, d]
        for i, j, k in {2: [(0, 1, 2)], 3: [(1, 2, 3), (0, 2, 4), (0, 1, 5)]}[dim]:
            M[:, :, i, j] = v[:, :, k] / r2
            M[:, :, j, i] = v[:, :, k] / r2
        return GFe._wrap(M)
    grp = sx.Mock("groupElem", Ne=NE, dim=dim, nPe=nPe, Get_dN_e_pg=lambda mt: sp.fe("dN"), Get_weightedJacobian_e_pg=lambda mt: sp.fe("wJ"))
    mk = lambda name, De, E: sx.Mock(name, groupElem=grp, matrixType="rigi", Compute_De=lambda: De, Compute_GreenLagrange=lambda: mat(E), _Slice_Vector=lambda v: v)
    s_n, s_m, s_p = mk("state_n", None, En), mk("state_mid", sp.fe("Dm"), None), mk("state_np1", sp.fe("Dp"), Ep)
    W = {id(s_n): sp.fe("Wn"), id(s_p): sp.fe("Wp")}
    dW = {id(s_m): sp.fe("sm"), id(s_p): sp.fe("sp1")}
    material = sx.Mock("material", thickness=sp.sym("t"), Compute_W=lambda st: W[id(st)], Compute_dWde=lambda st: dW[id(st)], Compute_d2Wde=lambda st: sp.fe("Cm"))
    K, R = fns["GonzalezStressTensor"](material, s_n, s_m, s_p, consistent)
    t = sp.sym("t") if dim == 2 else 1
    sm, Wn, Wp = sp.arr("sm"), sp.arr("Wn"), sp.arr("Wp")
    dEdE = gen.einsum("eps,eps->ep", dE, dE)
    alpha = (Wp - Wn - gen.einsum("eps,eps->ep", sm, dE)) / dEdE
    Shat = sm + gen.einsum("ep,eps->eps", alpha, dE)
    check(R, gen.einsum("ep,eps,epsa->ea", wJ, Shat, Btm) * t, "residual of the discrete-gradient operator != t sum wJ B_mid^T (s_mid + alpha dE)", f"gonzalez:R:{dim}:{nPe}")
    check(gen.einsum("eps,eps->ep", Shat, dE), Wp - Wn, "S_hat . dE != W_{n+1} - W_n", f"gonzalez:energy:{dim}")
    if tuple(map(repr, K.shape)) != tuple(map(repr, (NE, nd, nd))):
        raise Refuted(f"tangent of shape {K.shape}", signature="gonzalez:K:shape")
    return Verdict(DISCHARGED, backend=BACKEND + "; dE.dE > eps0 decided at the witness (generic increment)", sub=nd + 1)


def hyper_obligations(prop, tier):
    obs = []
    for dim, nPe in (((2, 3),) if tier == "quick" else ((2, 3), (2, 4))):      # (3-D: the rational arithmetic with a six-term denominator does not finish within the budget: left to the B obligations op.gonzalez.*)
        for consistent in ((True,) if tier == "quick" else (True, False)):
            obs.append(Ob(f"{prop}.gp.gonzalez.{dim}d.n{nPe}.{'consistent' if consistent else 'midpoint'}", ob_gonzalez_energy, (dim, nPe, consistent), "P", (f_(NLP, "GonzalezStressTensor"), f_(MUP, "Project_matrix_to_vector")),
                          clause="R == t sum_p wJ B_mid^T (s_mid + alpha dE) with (s_mid + alpha dE) . dE == W_{n+1} - W_n identically, for ANY energies, stresses, kinematic operators and strain increments; all Ne, nPg",
                          timeout=400))
    for dim, nPe in ((2, 3), (3, 4)) + (((2, 4),) if tier == "thorough" else ()):
        obs.append(Ob(f"{prop}.gp.kelvinvoigt.{dim}d.n{nPe}", ob_kelvin_voigt_operator, (dim, nPe), "P", (f_(NLP, "KelvinVoigtDamping"),),
                      clause="C == t eta sum_p wJ B^T B, R == t eta sum_p wJ B^T Edot, K == t (eta sum_p wJ B^T Deta grad + geometric block of eta Edot), for arbitrary De, Deta, Edot; all Ne, nPg", timeout=900))
    for dim, nPe in ((2, 3), (3, 4)) + (((2, 4), (3, 8)) if tier == "thorough" else ()):
        obs.append(Ob(f"{prop}.gp.active.{dim}d.n{nPe}", ob_active_stress_operator, (dim, nPe), "P", (f_(NLP, "ActiveStressTensor"), f_(NLP, "__geometric_tangent"), f_(NLP, "__block_grad_B")),
                      clause="R == t sum_p wJ B^T Sigma_act and K == t sum_p wJ I (x) dN^T Smat dN for an arbitrary active stress at the generic (e, p); nothing when the law has none; all Ne, nPg", timeout=900))
    for dim, nPe in ((2, 3), (2, 4), (3, 4)) + (((2, 6), (3, 8), (3, 6)) if tier == "thorough" else ()):
        obs.append(Ob(f"{prop}.gp.pk2.{dim}d.n{nPe}", ob_pk2_operator, (dim, nPe), "P",
                      tuple(f_(NLP, q) for q in ("SecondPiolaKirchhoffStressTensor", "__second_piola_block", "__geometric_tangent", "__block_grad_B", "__reorder_dofs")) + (f_(MUP, "Project_vector_to_matrix"),),
                      clause="R == t sum_p wJ B^T S and K == t sum_p wJ (B^T D B + I (x) dN^T Smat dN) with B = De grad, for arbitrary De, S, D at the generic (e, p), interleaved dof order; all Ne, nPg",
                      timeout=900))
    for nPe in (3, 4) + ((6, 8) if tier == "thorough" else ()):
        obs.append(Ob(f"{prop}.gp.follower.n{nPe}", ob_following_pressure, (nPe,), "P", tuple(f_(NLP, q) for q in ("FollowingPressure", "__skew", "__reorder_dofs")),
                      clause="R == sum_p w p N_i (a x b) and K == - sum_p w p N_i (S(a) dN_s,j - S(b) dN_r,j) with a, b the deformed tangents at the generic (e, p), interleaved dofs, exact zeros under zero pressure; all Ne, nPg",
                      timeout=900))
    for dim, nPe in ((2, 2), (3, 3)) + (((2, 3), (3, 4), (3, 6)) if tier == "thorough" else ()):
        for sgn in (-1, 1):
            obs.append(Ob(f"{prop}.gp.contact.{dim}d.n{nPe}.{'closed' if sgn < 0 else 'open'}", ob_penalty_contact, (dim, nPe, sgn), "P", (f_(NLP, "PenaltyContact"),),
                          clause="R == eps sum_p wJ <-g> N_i n and K == eps sum_p wJ H(-g) N_i N_j n (x) n at the generic (e, p) for both signs of the gap, exact zeros under zero penalty; all Ne, nPg", timeout=600))
    obs.append(Ob(f"{prop}.gp.canary.pk2", ob_pk2_operator, (2, 3, True), "P", expect=REFUTED, clause="twice the geometric stiffness must be refuted", timeout=300))
    obs.append(Ob(f"{prop}.gp.canary.follower", ob_following_pressure, (3, True), "P", expect=REFUTED, clause="twice the follower tangent must be refuted", timeout=300))
    return obs


def ob_pk2_consistency_lemma(dim, nPe):
    """L: with the contracts above and C18.kin (B = De grad is the directional derivative of the Green-Lagrange strain: B[s,(n,k)] = KM(sym(F^T grad(N_n e_k)))_s, F = I + sum_m u_m (x) dN_m),
    the geometric part of K is exactly the derivative of B^T S at fixed S:  sum_s S_s dB[s,(n,k)]/du_(m,l) == delta_kl dN_n . Smat . dN_m ; the material part is B^T D B when
    D = dS/dE (C18.law.*.d2W) and dE/du = B.  Hence K == dR/du at every state, for every element and every integration point."""
    ns = {2: 3, 3: 6}[dim]
    sp = gen.Space(dict(dN=(dim, nPe), u=(nPe, dim), S=(ns,)))
    dN, u, S = sp.arr("dN").data, sp.arr("u").data, sp.arr("S").data
    r2 = sp.ctx.sqrt_rational(F(2))
    one, zero = sp.const(1), sp.const(0)
    Fm = [[(one if i == j else zero) + sum((u[m, i] * dN[j, m] for m in range(nPe)), zero) for j in range(dim)] for i in range(dim)]
    pairs = {2: [(0, 1)], 3: [(1, 2), (0, 2), (0, 1)]}[dim]

    def km(M):
        return [M[d][d] for d in range(dim)] + [r2 * (M[i][j] + M[j][i]) / 2 for i, j in pairs]
    Smat = [[zero] * dim for _ in range(dim)]
    for d in range(dim):
        Smat[d][d] = S[d]
    for q, (i, j) in enumerate(pairs):
        Smat[i][j] = Smat[j][i] = S[dim + q] / r2
    n = 0
    for nn in range(nPe):
        for k in range(dim):
            G = [[(dN[j, nn] if i == k else zero) for j in range(dim)] for i in range(dim)]              # grad of v = N_n e_k
            FtG = [[sum((Fm[a][i] * G[a][j] for a in range(dim)), zero) for j in range(dim)] for i in range(dim)]
            Bcol = km([[(FtG[i][j] + FtG[j][i]) / 2 for j in range(dim)] for i in range(dim)])
            BS = sum((S[s] * Bcol[s] for s in range(ns)), zero)
            for m in range(nPe):
                for l in range(dim):
                    d = BS.diff(f"u_{m}_{l}")
                    want = sum((dN[a, nn] * Smat[a][c] * dN[c, m] for a in range(dim) for c in range(dim)), zero) if k == l else zero
                    n += 1
                    if not (d == want):
                        raise Refuted(f"d(B^T S)[(n={nn},k={k})]/du[(m={m},l={l})] = {d!r}, geometric stiffness says {want!r}", signature=f"pk2:lemma:{dim}")
    return Verdict(DISCHARGED, backend="polynomial identity in QQ(dN, u, S)[sqrt 2], derivative by the ring", sub=n)


@_guard
def ob_following_pressure(nPe, canary=False):
    """NonLinear.FollowingPressure on a surface group (all its elements): with x = X + u, a = sum_n dN_r x_n, b = sum_n dN_s x_n at the generic (e, p):
    R[e, 3i+c] == sum_p w p N_i (a x b)_c  and  K[e, 3i+c, 3j+d] == - sum_p w p N_i (S(a)[c,d] dN_s,j - S(b)[c,d] dN_r,j), interleaved dofs; zero pressure gives exact zeros"""
    dim = 3
    sp = gen.Space(dict(w=(NPG,), N=(NPG, 1, nPe), dN=(NPG, 2, nPe), X=(NE, nPe, 3), ue=(NE, nPe, 3)), scalars=("pr",))
    g, r2 = _nl_env(sp)
    g["np"] = type("NPf", (type(g["np"]),), dict(arange=gen.NP.arange))(sp)
    fns = module_fns(NLP, g, ["einsum", "__reorder", "__reorder_dofs", "__skew", "FollowingPressure"])
    grp = sx.Mock("groupElem", Ne=NE, dim=2, nPe=nPe, Get_gauss=lambda mt: sx.Mock("gauss", weights=sp.arr("w")), Get_N_pg=lambda mt: sp.arr("N"), Get_dN_pg=lambda mt: sp.arr("dN"),
                  connect=_Conn(), _global_to_local_nodes=_Table(_Conn("local")), coord=_Table(sp.arr("X")))
    u = sx.Mock("u", reshape=lambda *a: _Table(sp.arr("ue")))
    K0, R0 = fns["FollowingPressure"](grp, u, 0.0)
    check(K0, sp.full((NE, dim * nPe, dim * nPe), 0), "tangent under zero pressure", f"follow:zero:K:{nPe}")
    check(R0, sp.full((NE, dim * nPe), 0), "residual under zero pressure", f"follow:zero:R:{nPe}")
    K, R = fns["FollowingPressure"](grp, u, sp.lift(sp.sym("pr")))
    w, N, dN, X_, ue = (sp.arr(k) for k in ("w", "N", "dN", "X", "ue"))
    x = X_ + ue
    a = gen.einsum("pn,enc->epc", dN[:, 0, :], x)
    b = gen.einsum("pn,enc->epc", dN[:, 1, :], x)
    nrm = sp.full((NE, NPG, 3), 0)
    for c_, (i, j) in enumerate(((1, 2), (2, 0), (0, 1))):
        nrm[:, :, c_] = a[:, :, i] * b[:, :, j] - a[:, :, j] * b[:, :, i]
    pr = sp.sym("pr")

    def skew(v):
        S_ = sp.full((NE, NPG, 3, 3), 0)
        S_[:, :, 0, 1], S_[:, :, 0, 2] = -v[:, :, 2], v[:, :, 1]
        S_[:, :, 1, 0], S_[:, :, 1, 2] = v[:, :, 2], -v[:, :, 0]
        S_[:, :, 2, 0], S_[:, :, 2, 1] = -v[:, :, 1], v[:, :, 0]
        return S_
    wantR = gen.einsum("p,pi,epc->eic", w, N[:, 0, :], nrm).reshape(NE, dim * nPe) * pr
    wantK = (gen.einsum("p,epcd,pi,pj->eicjd", w, skew(a), N[:, 0, :], dN[:, 1, :]) - gen.einsum("p,epcd,pi,pj->eicjd", w, skew(b), N[:, 0, :], dN[:, 0, :])).reshape(NE, dim * nPe, dim * nPe) * (-pr)
    if canary:
        wantK = wantK * 2
    check(R, wantR, f"residual of the follower pressure (nPe {nPe})", f"follow:R:{nPe}")
    check(K, wantK, f"tangent of the follower pressure (nPe {nPe})", f"follow:K:{nPe}")
    return Verdict(DISCHARGED, backend=BACKEND, sub=(dim * nPe) ** 2 + dim * nPe + 2)


@_guard
def ob_frame_element(dim, nPe, law, reflect=False, canary=False):
    """frame indifference of the element stiffness, all Ne, nPg: with the problem turned by Q (shape-function gradients dN' = Q dN -- what C08.gp.pipeline gives for x' = Q x + c --,
    |J| unchanged, material turned with the problem: C' = Kelvin-Mandel image of the Q-rotated tensor, which C11.Pmat.tensor proves Apply_Pmat returns), the real Get_B_e_pg and
    LinearizedElasticity give  K'[(n,k),(m,l)] == sum_ab Q_ka Q_lb K[(n,a),(m,b)]  -- the stiffness of the turned problem is the turned stiffness, for every rotation (Cayley
    parameters; composed with a reflection when `reflect`)."""
    ns = {2: 3, 3: 6}[dim]
    nd = nPe * dim
    csyms = tuple(f"c{i}{j}" for i in range(ns) for j in range(i, ns)) if law == "general" else ("lam", "mu")
    rot = ("a",) if dim == 2 else ("a", "b", "c")
    sp = gen.Space(dict(wJ=(NE, NPG), dN=(NE, NPG, dim, nPe)), scalars=csyms + rot)
    g, NPs, Fe = env(sp, "EasyFEA.FEM._group_elem")
    gb, _, _ = env(sp, "EasyFEA.FEM.Operators.Bilinear")
    gb["FeArray"], gb["np"] = g["FeArray"], g["np"]
    fns = module_fns(BP, gb, ["einsum", "LinearizedElasticity"])
    one, zero = sp.const(1), sp.const(0)
    if dim == 2:
        a = sp.sym("a")
        den = one + a * a
        Q = [[(one - a * a) / den, -2 * a / den], [2 * a / den, (one - a * a) / den]]
    else:
        a, b, c_ = sp.sym("a"), sp.sym("b"), sp.sym("c")
        den = one + a * a + b * b + c_ * c_
        Q = [[(one + a * a - b * b - c_ * c_) / den, 2 * (a * b - c_) / den, 2 * (a * c_ + b) / den],
             [2 * (a * b + c_) / den, (one - a * a + b * b - c_ * c_) / den, 2 * (b * c_ - a) / den],
             [2 * (a * c_ - b) / den, 2 * (b * c_ + a) / den, (one - a * a - b * b + c_ * c_) / den]]
    if reflect:
        Q = [[-Q[i][0]] + Q[i][1:] for i in range(dim)]          # Q . diag(-1, 1, ...): determinant -1
    Qa = sp.lift(np.array(Q, dtype=object))
    r2 = sp.ctx.sqrt_rational(F(2))
    pairs = {2: [(0, 0), (1, 1), (0, 1)], 3: [(0, 0), (1, 1), (2, 2), (1, 2), (0, 2), (0, 1)]}[dim]
    if law == "general":
        C = [[sp.sym(f"c{min(i, j)}{max(i, j)}") for j in range(ns)] for i in range(ns)]
    else:
        lam_, mu = sp.sym("lam"), sp.sym("mu")
        C = [[(lam_ if (i < dim and j < dim) else zero) + (2 * mu if i == j else zero) for j in range(ns)] for i in range(ns)]
    # fourth-order tensor of C, turned by Q, back to Kelvin-Mandel
    fac = lambda i, j: one if i == j else r2
    T4 = {}
    for I, (i, j) in enumerate(pairs):
        for J, (k, l) in enumerate(pairs):
            v = C[I][J] / (fac(i, j) * fac(k, l))
            for (p_, q_) in {(i, j), (j, i)}:
                for (r_, s_) in {(k, l), (l, k)}:
                    T4[(p_, q_, r_, s_)] = v
    rng_ = range(dim)
    Cq = [[zero] * ns for _ in range(ns)]
    for I, (i, j) in enumerate(pairs):
        for J, (k, l) in enumerate(pairs):
            tot = zero
            for (p_, q_, r_, s_), v in T4.items():
                tot = tot + Q[i][p_] * Q[j][q_] * Q[k][r_] * Q[l][s_] * v
            Cq[I][J] = tot * fac(i, j) * fac(k, l)
    Ca, Cqa = sp.lift(np.array(C, dtype=object)), sp.lift(np.array(Cq, dtype=object))

    class Gs:
        nPg = NPG

    def stiffness(dN_field, Cmat):
        me = sx.Mock("self", Ne=NE, nPe=nPe, dim=dim, Get_dN_e_pg=lambda mt: dN_field, Get_gauss=lambda mt: Gs())
        B = fn_of(GP, "_GroupElem.Get_B_e_pg", g)(me, "rigi")
        grp = sx.Mock("groupElem", dim=dim, nPe=nPe, Ne=NE, Get_weightedJacobian_e_pg=lambda mt: sp.fe("wJ"), Get_B_e_pg=lambda mt: B,
                      Get_leftDispPart_e_pg=lambda mt: GFe._wrap(gen.einsum("ep,epij->epji", sp.arr("wJ"), _plain(B))))
        return _plain(fns["LinearizedElasticity"](grp, Cmat))
    K = stiffness(sp.fe("dN"), Ca)
    dNq = gen.einsum("ij,epjn->epin", Qa, sp.arr("dN"))
    Kq = stiffness(GFe._wrap(dNq), Ca if canary else Cqa)           # canary: the material is NOT turned with the problem
    want = gen.einsum("ka,lb,enamb->enkml", Qa, Qa, K.reshape(NE, nPe, dim, nPe, dim)).reshape(NE, nd, nd)
    check(Kq, want, f"stiffness of the turned element (dim {dim}, nPe {nPe}, {law} law{', reflected' if reflect else ''}) vs the turned stiffness", f"frame:K:{dim}:{nPe}:{law}:{reflect}")
    return Verdict(DISCHARGED, backend=BACKEND + "; rotation by its Cayley parameters", sub=nd * nd)


class _SelConn:
    """connect[elements]: the rows of the connectivity listed by the caller's selection, in the caller's order"""

    def __init__(self, sel):
        self.sel = sel


class _ConnS(_Conn):
    """a connectivity that may be restricted to a selection of elements"""

    def __getitem__(self, idx):
        return _SelConn(idx)


class _TableS(_Table):
    """nodal table gathered by the whole connectivity or by a restricted one: the contract gives both gathered arrays"""

    def __init__(self, gathered, sel, gathered_sel):
        super().__init__(gathered)
        self.sel, self.gathered_sel = sel, gathered_sel

    def __getitem__(self, idx):
        if isinstance(idx, _SelConn):
            if idx.sel is not self.sel:
                raise Unsupported("a nodal table gathered by the connectivity of other elements than the selected ones")
            return self.gathered_sel.copy()
        return super().__getitem__(idx)


NSEL = gen.Dim("Nsel")


@_guard
def ob_gauss_coordinates(nPe, selected):
    """_GroupElem.Get_GaussCoordinates_e_pg from the AST, all Ne, nPg (and any number of selected elements): x_g[e, p, :] == sum_n N_n(xi_p) x[e, n, :] over the nodes of element e --
    of every element, or of the caller's selection IN THE CALLER'S ORDER (row k of the result belongs to the k-th selected element, as the weights and connectivity the callers pair it with)"""
    sp = gen.Space(dict(N=(NPG, 1, nPe), X=(NE, nPe, 3), Xs=(NSEL, nPe, 3)))
    g, NPs, Fe = env(sp, "EasyFEA.FEM._group_elem")

    class Sel:
        size = NSEL
    sel = Sel()
    conn = _ConnS("local")
    me = sx.Mock("self", Get_N_pg=lambda mt: sp.arr("N"), connect=_Conn(), _global_to_local_nodes=_Table(conn), coord=_TableS(sp.arr("X"), sel, sp.arr("Xs")), Ne=NE, nPe=nPe)
    f = fn_of(GP, "_GroupElem.Get_GaussCoordinates_e_pg", g)
    try:
        got = f(me, "mass", sel) if selected else f(me, "mass")
    except (TypeError, IndexError) as ex:
        # the selection used otherwise than to restrict the connectivity (as a mask index, a sort key, ...): outside the contract of the stubs
        raise Unsupported(f"the selection of elements is used in a way the gather contract does not cover: {type(ex).__name__}: {str(ex)[:100]}")
    want = gen.einsum("pn,end->epd", sp.arr("N")[:, 0, :], sp.arr("Xs") if selected else sp.arr("X"))
    lead = NSEL if selected else NE
    if not bool(getattr(got, "fe", False)) or tuple(map(repr, got.shape)) != tuple(map(repr, (lead, NPG, 3))):
        raise Refuted(f"Get_GaussCoordinates_e_pg returns {got!r}, expected a field of shape ({lead}, nPg, 3)", signature=f"gausscoord:{nPe}:{selected}:shape")
    check(_plain(got), want, f"integration-point coordinates ({'selected elements' if selected else 'all elements'}, nPe {nPe})", f"gausscoord:{nPe}:{selected}")
    return Verdict(DISCHARGED, backend=BACKEND, sub=3)


@_guard
def ob_frame_diffusion(dim, nPe, reflect=False):
    """frame indifference of the diffusion operator, all Ne, nPg: the real GradU_A_GradV on dN' = Q dN with the (non-symmetric, general) conductivity tensor turned with the problem, A' = Q A Q^T,
    gives the matrix of the unturned problem (a scalar unknown does not turn): K(Q dN, Q A Q^T) == K(dN, A), for every rotation (Cayley parameters; composed with a reflection when `reflect`)"""
    asyms = tuple(f"a{i}{j}" for i in range(dim) for j in range(dim))
    rot = ("a",) if dim == 2 else ("a", "b", "c")
    sp = gen.Space(dict(wJ=(NE, NPG), dN=(NE, NPG, dim, nPe), kep=(NE, NPG)), scalars=asyms + rot)
    g, NPs, Fe = env(sp, "EasyFEA.FEM.Operators.Bilinear")
    fns = module_fns(BP, g, ["einsum", "GradU_A_GradV"])
    one = sp.const(1)
    if dim == 2:
        a = sp.sym("a")
        den = one + a * a
        Q = [[(one - a * a) / den, -2 * a / den], [2 * a / den, (one - a * a) / den]]
    else:
        a, b, c_ = sp.sym("a"), sp.sym("b"), sp.sym("c")
        den = one + a * a + b * b + c_ * c_
        Q = [[(one + a * a - b * b - c_ * c_) / den, 2 * (a * b - c_) / den, 2 * (a * c_ + b) / den],
             [2 * (a * b + c_) / den, (one - a * a + b * b - c_ * c_) / den, 2 * (b * c_ - a) / den],
             [2 * (a * c_ - b) / den, 2 * (b * c_ + a) / den, (one - a * a - b * b + c_ * c_) / den]]
    if reflect:
        Q = [[-Q[i][0]] + Q[i][1:] for i in range(dim)]
    Qa = sp.lift(np.array(Q, dtype=object))
    A = sp.lift(np.array([[sp.sym(f"a{i}{j}") for j in range(dim)] for i in range(dim)], dtype=object))
    Aq = gen.einsum("ia,ab,jb->ij", Qa, A, Qa)

    def stiffness(dN, Amat):
        me = sx.Mock("groupElem", dim=dim, nPe=nPe, Ne=NE, Get_weightedJacobian_e_pg=lambda mt: sp.fe("wJ"), Get_dN_e_pg=lambda mt: GFe._wrap(dN),
                     Get_DiffusePart_e_pg=lambda mt: GFe._wrap(gen.einsum("ep,epij->epji", sp.arr("wJ"), dN)))
        return _plain(fns["GradU_A_GradV"](me, Amat, sp.arr("kep")))
    K = stiffness(sp.arr("dN"), A)
    Kq = stiffness(gen.einsum("ij,epjn->epin", Qa, sp.arr("dN")), Aq)
    check(Kq, K, f"diffusion matrix of the turned element (dim {dim}, nPe {nPe}{', reflected' if reflect else ''}) vs the matrix of the unturned one", f"frame:diffusion:{dim}:{nPe}:{reflect}")
    return Verdict(DISCHARGED, backend=BACKEND + "; rotation by its Cayley parameters", sub=nPe * nPe)


def frame_obligations(prop, tier):
    obs = []
    cases = [(2, 3, "iso", False), (2, 3, "general", False), (2, 3, "general", True), (2, 4, "general", False)]
    if tier == "thorough":
        cases += [(2, 6, "general", False), (3, 4, "iso", False), (3, 4, "iso", True)]
    for dim, nPe, law, refl in cases:
        obs.append(Ob(f"{prop}.gp.element.{dim}d.n{nPe}.{law}{'.reflected' if refl else ''}", ob_frame_element, (dim, nPe, law, refl), "P",
                      (f_(GP, "_GroupElem.Get_B_e_pg"), f_(BP, "LinearizedElasticity")),
                      clause="K(Q dN, C turned by Q) == (Q (x) Q) K(dN, C) for every rotation / reflection Q, every anisotropic law (2-D) or isotropic law (3-D), at the generic (e, p); all Ne, nPg", timeout=1800))
    for dim, nPe, refl in [(2, 3, False), (2, 4, True), (3, 4, False)] + ([(3, 8, True)] if tier == "thorough" else []):
        obs.append(Ob(f"{prop}.gp.diffusion.{dim}d.n{nPe}{'.reflected' if refl else ''}", ob_frame_diffusion, (dim, nPe, refl), "P", (f_(BP, "GradU_A_GradV"),),
                      clause="K(Q dN, Q A Q^T) == K(dN, A) for every rotation / reflection Q and every (non-symmetric) conductivity tensor A at the generic (e, p); all Ne, nPg", timeout=1800))
    obs.append(Ob(f"{prop}.gp.canary.element", ob_frame_element, (2, 3, "general", False, True), "P", expect=REFUTED, clause="an anisotropic material left unturned must be refuted", timeout=300))
    return obs


@_guard
def ob_penalty_contact(dim, nPe, sgn):
    """NonLinear.PenaltyContact on a contact surface group (all its elements), gap < 0 (penetration) or > 0 (open) at the generic (e, p), decided at the witness, both run:
    R[e, dim i + c] == eps sum_p wJ <-g> N_i n_c  and  K[e, dim i + c, dim j + d] == eps sum_p wJ H(-g) N_i N_j n_c n_d (the derivative of R along the normal); zero penalty -> exact zeros"""
    decl = dict(wJ=(NE, NPG), N=(NPG, 1, nPe), gap=(NE, NPG), nrm=(NE, NPG, 3))

    def space():
        return gen.Space(decl, scalars=("pen",))
    sp = space()
    if sp.const(sp.arr("gap").data[0, 0]).sign() != sgn:
        wit = dict(sp.ctx.witness)
        wit["gap"] = -wit["gap"]
        from vt.alg import Ctx
        sp = space()
        sp.ctx = Ctx(sp.ctx.names, nspare=4, witness=wit)
        if sp.const(sp.arr("gap").data[0, 0]).sign() != sgn:
            raise Unsupported("could not choose a witness with the requested sign of the gap")
    g, r2 = _nl_env(sp)
    g["np"] = type("NPf", (type(g["np"]),), dict(arange=gen.NP.arange))(sp)
    fns = module_fns(NLP, g, ["einsum", "PenaltyContact"])
    grp = sx.Mock("groupElem", Ne=NE, dim=dim - 1, inDim=dim, nPe=nPe, Get_weightedJacobian_e_pg=lambda mt: sp.arr("wJ"), Get_N_pg=lambda mt: sp.arr("N"))
    gap, nrm = sp.fe("gap"), sp.fe("nrm")
    K0, R0 = fns["PenaltyContact"](grp, 0.0, gap, nrm)
    check(K0, sp.full((NE, dim * nPe, dim * nPe), 0), "tangent under zero penalty", f"contact:zero:K:{dim}:{nPe}")
    check(R0, sp.full((NE, dim * nPe), 0), "residual under zero penalty", f"contact:zero:R:{dim}:{nPe}")
    K, R = fns["PenaltyContact"](grp, sp.sym("pen"), gap, nrm)
    wJ, N, gp_, n_ = sp.arr("wJ"), sp.arr("N")[:, 0, :], sp.arr("gap"), sp.arr("nrm")[:, :, :dim]
    pen = sp.sym("pen")
    if sgn < 0:
        wantR = gen.einsum("ep,ep,pi,epc->eic", wJ, gp_ * (-1), N, n_).reshape(NE, dim * nPe) * pen
        wantK = gen.einsum("ep,pi,pj,epc,epd->eicjd", wJ, N, N, n_, n_).reshape(NE, dim * nPe, dim * nPe) * pen
    else:
        wantR = sp.full((NE, dim * nPe), 0)
        wantK = sp.full((NE, dim * nPe, dim * nPe), 0)
    check(R, wantR, f"residual of the penalty contact (dim {dim}, nPe {nPe}, gap {'<' if sgn < 0 else '>'} 0)", f"contact:R:{dim}:{nPe}:{sgn}")
    check(K, wantK, f"tangent of the penalty contact (dim {dim}, nPe {nPe}, gap {'<' if sgn < 0 else '>'} 0)", f"contact:K:{dim}:{nPe}:{sgn}")
    return Verdict(DISCHARGED, backend=BACKEND + "; sign of the gap decided at the witness (both signs run)", sub=(dim * nPe) ** 2 + dim * nPe + 2)


def ob_following_pressure_lemma(nPe):
    """L: at a generic integration point, with a = sum_n dN_r,n x_n, b = sum_n dN_s,n x_n, x = X + u:  d[(a x b)_c]/du_(j,d) == S(a)[c,d] dN_s,j - S(b)[c,d] dN_r,j.  With the
    contract above (K == - sum_p w p N_i (that matrix), R == sum_p w p N_i (a x b)) the tangent of the operator is minus the derivative of its force at every state."""
    sp = gen.Space(dict(dNr=(nPe,), dNs=(nPe,), X=(nPe, 3), u=(nPe, 3)))
    dNr, dNs, X_, u = (sp.arr(k).data for k in ("dNr", "dNs", "X", "u"))
    zero = sp.const(0)
    a = [sum((dNr[n] * (X_[n, c] + u[n, c]) for n in range(nPe)), zero) for c in range(3)]
    b = [sum((dNs[n] * (X_[n, c] + u[n, c]) for n in range(nPe)), zero) for c in range(3)]
    nrm = [a[1] * b[2] - a[2] * b[1], a[2] * b[0] - a[0] * b[2], a[0] * b[1] - a[1] * b[0]]
    S = lambda v: [[zero, -v[2], v[1]], [v[2], zero, -v[0]], [-v[1], v[0], zero]]
    Sa, Sb = S(a), S(b)
    n = 0
    for c in range(3):
        for j in range(nPe):
            for d in range(3):
                got = nrm[c].diff(f"u_{j}_{d}")
                want = Sa[c][d] * dNs[j] - Sb[c][d] * dNr[j]
                n += 1
                if not (got == want):
                    raise Refuted(f"d(a x b)_{c}/du[{j},{d}] = {got!r}, the operator's matrix has {want!r}", signature=f"follow:lemma:{nPe}")
    return Verdict(DISCHARGED, backend="polynomial identity in QQ(dN, X, u), derivative by the ring", sub=n)


def hyper_lemma_obligations(prop, tier):
    return [Ob(f"{prop}.gp.pk2.consistency.{dim}d.n{nPe}", ob_pk2_consistency_lemma, (dim, nPe), "L", (),
               clause="geometric stiffness == derivative of B^T S at fixed S for the Green-Lagrange strain: with D = dS/dE the tangent of the PK2 operator is the derivative of its residual at every state", timeout=600)
            for dim, nPe in ((2, 3), (3, 4))] + \
           [Ob(f"{prop}.gp.follower.consistency.n{nPe}", ob_following_pressure_lemma, (nPe,), "L", (),
               clause="d(a x b)/du_(j,d) == S(a) dN_s,j - S(b) dN_r,j: with the operator contract the follower tangent is minus the derivative of the follower force at every state", timeout=300)
            for nPe in (3, 4, 8)]



# ---------------------------------------------------------------------------------------------- FeArray itself at the generic (e, p) (C12)

@_guard
def ob_fearray_generic(what):
    """methods of the real FeArray (re-assembled from its source) on fields of symbolic extents: the result at (e, p) is the numpy operation on the tensors at (e, p)"""
    d = 3
    sp = gen.Space(dict(s=(NE, NPG), t=(NE, NPG), v=(NE, NPG, d), w=(NE, NPG, d), A=(NE, NPG, d, d), Bm=(NE, NPG, d, d), T3=(NE, NPG, 2, d, d), T4=(NE, NPG, d, d, d, d),
                        c0=(), c1=(d,), c2=(d, d), se=(NE, 1), sp_=(1, NPG)), scalars=("k",))
    g, NPs, Fe = env(sp, "EasyFEA.FEM._linalg")
    f = {k: sp.fe(k) for k in ("s", "t", "v", "w", "A", "Bm", "T3", "T4", "se", "sp_")}
    a = {k: sp.arr(k) for k in sp.decls}
    k_ = sp.sym("k")
    n = 0

    def same(got, want, label, field=True):
        nonlocal n
        n += 1
        if bool(getattr(got, "fe", False)) != field:
            raise Refuted(f"{label}: the result is {'not ' if field else ''}a field", signature=f"fearray:{what}:type")
        check(got, want, label, f"fearray:{what}")
    E = gen.einsum
    if what == "elementwise":
        for nm, op in (("+", lambda x, y: x + y), ("-", lambda x, y: x - y), ("*", lambda x, y: x * y), ("/", lambda x, y: x / y)):
            same(op(f["s"], f["A"]), op(E("ep,ij->epij", a["s"], sp.full((d, d), 1)), a["A"]), f"scalar field {nm} matrix field")
            same(op(f["A"], f["s"]), op(a["A"], E("ep,ij->epij", a["s"], sp.full((d, d), 1))), f"matrix field {nm} scalar field")
            same(op(f["v"], f["A"]), op(E("epj,i->epij", a["v"], sp.full((d,), 1)), a["A"]), f"vector field {nm} matrix field (tensor axes right-aligned)")
            same(op(f["A"], a["c2"]), op(a["A"], E("ij,ep->epij", a["c2"], sp.full((NE, NPG), 1))), f"matrix field {nm} constant matrix")
            same(op(a["c1"], f["v"]), op(E("i,ep->epi", a["c1"], sp.full((NE, NPG), 1)), a["v"]), f"constant vector {nm} vector field")
            same(op(f["s"], k_), op(a["s"], sp.full((NE, NPG), k_)), f"scalar field {nm} number")
            same(op(2, f["v"]), op(sp.full((NE, NPG, d), 2), a["v"]), f"number {nm} vector field")
            same(op(f["se"], f["sp_"]), op(E("eo,ep->ep", a["se"], sp.full((NE, NPG), 1)), E("op,ep->ep", a["sp_"], sp.full((NE, NPG), 1))), f"(Ne, 1) field {nm} (1, nPg) field")
        same(-f["A"], a["A"] * -1, "negation")
    elif what == "transpose":
        same(f["s"].T, a["s"], "T of a scalar field")
        same(f["v"].T, a["v"], "T of a vector field")
        same(f["A"].T, E("epij->epji", a["A"]), "T of a matrix field")
        same(f["T3"].T, E("epijk->epkji", a["T3"]), "T of a rank-3 field (tensor axes reversed)")
        same(f["T4"].T, E("epijkl->eplkji", a["T4"]), "T of a rank-4 field")
    elif what == "matmul":
        same(f["A"] @ f["Bm"], E("epij,epjk->epik", a["A"], a["Bm"]), "matrix field @ matrix field")
        same(f["A"] @ f["v"], E("epij,epj->epi", a["A"], a["v"]), "matrix field @ vector field")
        same(f["v"] @ f["A"], E("epi,epij->epj", a["v"], a["A"]), "vector field @ matrix field")
        same(f["v"] @ f["w"], E("epi,epi->ep", a["v"], a["w"]), "vector field @ vector field")
        same(f["A"] @ a["c2"], E("epij,jk->epik", a["A"], a["c2"]), "matrix field @ constant matrix")
        same(f["A"] @ a["c1"], E("epij,j->epi", a["A"], a["c1"]), "matrix field @ constant vector")
        same(f["v"] @ a["c2"], E("epi,ij->epj", a["v"], a["c2"]), "vector field @ constant matrix")
        same(a["c2"] @ f["A"], E("ij,epjk->epik", a["c2"], a["A"]), "constant matrix @ matrix field")
        same(a["c2"] @ f["v"], E("ij,epj->epi", a["c2"], a["v"]), "constant matrix @ vector field")
        same(a["c1"] @ f["A"], E("i,epij->epj", a["c1"], a["A"]), "constant vector @ matrix field")
        same(a["c1"] @ f["v"], E("i,epi->ep", a["c1"], a["v"]), "constant vector @ vector field")
        same(f["se"][:, :, None, None] * f["A"] @ f["v"], E("eo,epij,epj->epi", a["se"], a["A"], a["v"]), "((Ne, 1) field * matrix field) @ vector field")
    elif what == "dot":
        same(f["v"].dot(f["w"]), E("epi,epi->ep", a["v"], a["w"]), "vector . vector")
        same(f["A"].dot(f["v"]), E("epij,epj->epi", a["A"], a["v"]), "matrix . vector")
        same(f["v"].dot(f["A"]), E("epi,epij->epj", a["v"], a["A"]), "vector . matrix")
        same(f["A"].dot(f["Bm"]), E("epij,epjk->epik", a["A"], a["Bm"]), "matrix . matrix")
        same(f["T4"].dot(f["v"]), E("epijkl,epl->epijk", a["T4"], a["v"]), "rank 4 . vector")
        same(f["A"].dot(a["c2"]), E("epij,jk->epik", a["A"], a["c2"]), "matrix . constant matrix")
        same(f["A"].ddot(f["Bm"]), E("epij,epij->ep", a["A"], a["Bm"]), "matrix : matrix")
        same(f["T4"].ddot(f["A"]), E("epijkl,epkl->epij", a["T4"], a["A"]), "rank 4 : matrix")
        same(f["A"].ddot(f["T4"]), E("epij,epijkl->epkl", a["A"], a["T4"]), "matrix : rank 4")
        same(f["A"].ddot(a["c2"]), E("epij,ij->ep", a["A"], a["c2"]), "matrix : constant matrix")
    elif what == "reduce":
        same((f["s"] * f["A"]).integrate(), E("ep,epij->eij", a["s"], a["A"]), "integrate", field=False)
        same(f["A"].sum(axis=-1), E("epij->epi", a["A"]), "sum over a tensor axis")
        same(f["A"].sum(axis=(2, 3)), E("epij->ep", a["A"]), "sum over both tensor axes")
        same(f["A"].sum(axis=1), E("epij->eij", a["A"]), "sum over the Gauss points", field=False)
        same(f["A"].sum(axis=0), E("epij->pij", a["A"]), "sum over the elements", field=False)
        same(sp.lift(f["s"].sum()), E("ep->", a["s"]), "sum of everything", field=False)
        same(f["A"].reshape(NE, NPG, d * d), a["A"].reshape(NE, NPG, d * d), "reshape of the tensor axes")
        same(Fe.asfearray(a["c2"], True), a["c2"][None, None], "asfearray(constant, broadcastFeArrays=True)")
    else:
        raise AssertionError(what)
    return Verdict(DISCHARGED, backend=BACKEND + "; FeArray methods from their own source", sub=n)


def fearray_obligations(prop, tier):
    obs = [Ob(f"{prop}.gp.fearray.{w}", ob_fearray_generic, (w,), "P", tuple(f_(LP, f"FeArray.{q}") for q in {"elementwise": ("_align",), "transpose": ("T",), "matmul": ("__matmul__", "__rmatmul__"),
                                                                                                                 "dot": ("dot", "ddot", "_dot_subscript", "_ddot_subscript"), "reduce": ("integrate", "reshape", "asfearray")}[w]),
              clause="the result at every (e, p) is the numpy operation on the tensors at (e, p), for all Ne, nPg (fields of ranks 0 ... 4, constants and numbers on either side, size-1 leading axes)", timeout=600)
           for w in ("elementwise", "transpose", "matmul", "dot", "reduce")]
    return obs


# ---------------------------------------------------------------------------------------------- normals of boundary groups (C08)

@_guard
def ob_normals(dim, nPe):
    """_GroupElem.Get_normals_e_pg at the generic (e, p) for arbitrary node coordinates and reference gradients: raw normal == t_r x t_s (surfaces) / e_z x t_r (lines) with
    t = sum_n dN_n x_n; normalised normal == raw / |raw| (unit, same direction); a field; for all Ne, nPg"""
    sp = gen.Space(dict(x=(NE, nPe, 3), dNr=(NPG, dim, nPe)), nspare=6)
    g, NPs, Fe = env(sp, "EasyFEA.FEM._group_elem")
    gl, _, _ = env(sp, "EasyFEA.FEM._linalg")
    gl["np"], gl["FeArray"] = g["np"], g["FeArray"]
    g["Normalize"] = extract.compile_fn(extract.get(LP, "Normalize"), gl)
    me = sx.Mock("self", dim=dim, connect=_Conn(), _global_to_local_nodes=_Table(_Conn("local")), coord=_Table(sp.arr("x")), Get_dN_pg=lambda mt: sp.arr("dNr"))
    f = fn_of(GP, "_GroupElem.Get_normals_e_pg", g)
    raw = f(me, "mass", None, False)
    x, dN = sp.arr("x"), sp.arr("dNr")
    tr = gen.einsum("pn,end->epd", dN[:, 0], x)
    if dim == 1:
        want = gen.NP(sp).cross(sp.lift(np.array([0, 0, 1])), tr)
    else:
        want = gen.NP(sp).cross(tr, gen.einsum("pn,end->epd", dN[:, 1], x))
    check(raw, want, f"raw normal (dim {dim}, nPe {nPe}) != cross product of the tangent vectors", f"normals:raw:{dim}:{nPe}")
    if not getattr(raw, "fe", False):
        raise Refuted("Get_normals_e_pg does not return a field", signature="normals:type")
    unit = f(me, "mass", None, True)
    nrm = gen.NP(sp).linalg.norm(want, axis=-1, keepdims=True)
    check(_plain(unit) * nrm, want, "normalised normal x |raw| != raw normal", f"normals:unit:{dim}:{nPe}")
    dot = gen.einsum("epd,epd->ep", _plain(unit), _plain(unit))
    check(dot, sp.full((NE, NPG), 1), "the normalised normal is not a unit vector", f"normals:norm:{dim}:{nPe}")
    return Verdict(DISCHARGED, backend=BACKEND + "; square roots as algebraic generators with their defining relation", sub=7)


def normals_obligations(prop, tier):
    return [Ob(f"{prop}.gp.normals.{dim}d.n{nPe}", ob_normals, (dim, nPe), "P", (f_(GP, "_GroupElem.Get_normals_e_pg"), f_(LP, "Normalize")),
               clause="raw normal == cross product of the tangent vectors sum_n dN_n x_n (e_z x tangent for lines); normalised == raw / |raw|, unit; arbitrary (curved) elements; all Ne, nPg", timeout=1800)
            for dim, nPe in ((1, 2), (1, 3), (2, 3), (2, 4)) + (((1, 4), (2, 6)) if tier == "thorough" else ())]
