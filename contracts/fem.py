"""Exact finite-element helpers used by B-tier contracts (after vt.symrun.install)."""
from __future__ import annotations

from fractions import Fraction

import numpy as np

from vt.alg import X
from . import patches, common

F = Fraction


def exact_group(et, coords, connect):
    from EasyFEA.FEM._group_elem import GroupElemFactory
    from EasyFEA.FEM._utils import ElemType
    co = np.empty((len(coords), 3), dtype=object)
    for i, p in enumerate(coords):
        for j in range(3):
            co[i, j] = p[j]
    return GroupElemFactory.Create(ElemType[et], np.array(connect, dtype=int), co)


def exact_mesh(et, coords, connect):
    from EasyFEA.FEM._mesh import Mesh
    from EasyFEA.FEM._utils import ElemType
    return Mesh({ElemType[et]: exact_group(et, coords, connect)})


def iso_C(dim, lam=F(6, 5), mu=F(4, 5)):
    n = 3 if dim == 2 else 6
    C = np.empty((n, n), dtype=object)
    for i in range(n):
        for j in range(n):
            C[i, j] = F(0)
    for i in range(dim):
        for j in range(dim):
            C[i, j] = lam
        C[i, i] = lam + 2 * mu
    for i in range(dim, n):
        C[i, i] = 2 * mu
    return C


def dense_assemble(Ke, connect, Ndof, dof_n):
    """Scatter-add (the contract proved in C03): K[A[e,i], A[e,j]] += Ke[e,i,j] with A[e, n*dof_n+d] = connect[e,n]*dof_n+d."""
    K = np.empty((Ndof, Ndof), dtype=object)
    for i in range(Ndof):
        for j in range(Ndof):
            K[i, j] = F(0)
    Ke = np.asarray(Ke)
    for e, row in enumerate(connect):
        dofs = [n * dof_n + d for n in row for d in range(dof_n)]
        for a, ra in enumerate(dofs):
            for b, cb in enumerate(dofs):
                v = Ke[e, a, b]
                if not _is0(v):
                    K[ra, cb] = K[ra, cb] + v
    return K


def _is0(v):
    if isinstance(v, X):
        return v.c.iszero(v)
    return v == 0


def to_fraction(v):
    if isinstance(v, X):
        g = v.ground()
        if g is None:
            raise ValueError("not ground")
        return g
    return Fraction(v)


def rank(M):
    """Exact rank by Gaussian elimination over the exact field (entries Fraction or exact X)."""
    A = [list(r) for r in np.asarray(M)]
    nr, nc = len(A), len(A[0]) if A else 0
    r = 0
    for c in range(nc):
        p = next((i for i in range(r, nr) if not _is0(A[i][c])), None)
        if p is None:
            continue
        A[r], A[p] = A[p], A[r]
        pv = A[r][c]
        for i in range(r + 1, nr):
            if not _is0(A[i][c]):
                f = A[i][c] / pv
                A[i] = [a - f * b for a, b in zip(A[i], A[r])]
        r += 1
        if r == nr:
            break
    return r


def float_matrix(M):
    return np.array([[float(v) for v in row] for row in np.asarray(M)], dtype=float)


def maxabs(vals):
    m = F(0)
    for v in vals:
        a = abs(to_fraction(v)) if not isinstance(v, X) or v.ground() is not None else None
        if a is None:
            return None
        m = max(m, a)
    return m


def rigid_modes(coords, dim):
    """translations and infinitesimal rotations at the nodes (dof order node*dim + d)."""
    Nn = len(coords)
    modes = []
    for d in range(dim):
        v = [F(0)] * (Nn * dim)
        for n in range(Nn):
            v[n * dim + d] = F(1)
        modes.append(v)
    if dim == 2:
        v = [F(0)] * (Nn * dim)
        for n, p in enumerate(coords):
            v[n * 2], v[n * 2 + 1] = -p[1], p[0]
        modes.append(v)
    elif dim == 3:
        for (a, b) in ((0, 1), (1, 2), (0, 2)):
            v = [F(0)] * (Nn * dim)
            for n, p in enumerate(coords):
                v[n * 3 + a], v[n * 3 + b] = -p[b], p[a]
            modes.append(v)
    return modes


def matvec(M, v):
    M = np.asarray(M)
    return [sum((M[i, j] * v[j] for j in range(len(v)) if not _is0(M[i, j]) and not _is0(v[j])), F(0)) for i in range(M.shape[0])]


def star_interior(et, pre_affine_coords):
    """interior nodes of a star patch, from the pre-affine coordinates."""
    t = "".join(ch for ch in et if not ch.isdigit())
    out = []
    for i, p in enumerate(pre_affine_coords):
        if t == "SEG":
            ok = -3 < p[0] < 1
        elif t == "TRI":
            ok = abs(p[0]) + abs(p[1]) < 1
        elif t == "QUAD":
            ok = all(-3 < x < 1 for x in p[:2])
        elif t == "TETRA":
            ok = abs(p[0]) + abs(p[1]) + abs(p[2]) < 1
        elif t == "HEXA":
            ok = all(-3 < x < 1 for x in p[:3])
        elif t == "PRISM":
            ok = abs(p[0]) + abs(p[1]) < 1 and -3 < p[2] < 1
        else:
            raise ValueError(et)
        if ok:
            out.append(i)
    return out


# ---------------------------------------------------------------- rank through a ring homomorphism into F_p

def _is_probable_prime(n):
    if n < 2:
        return False
    for q in (2, 3, 5, 7, 11, 13, 17, 19, 23, 29, 31, 37):
        if n % q == 0:
            return n == q
    d, s = n - 1, 0
    while d % 2 == 0:
        d //= 2
        s += 1
    for a in (2, 3, 5, 7, 11, 13, 17, 19, 23, 29, 31, 37):
        x = pow(a, d, n)
        if x in (1, n - 1):
            continue
        for _ in range(s - 1):
            x = x * x % n
            if x == n - 1:
                break
        else:
            return False
    return True


class ModMap:
    """Ring homomorphism QQ[radicals of ctx] -> F_p (p = 3 mod 4, every radicand a quadratic residue)."""

    def __init__(self, c, seed=0):
        import random
        self.c = c
        rnd = random.Random(seed)
        while True:
            p = rnd.getrandbits(61) | (1 << 60) | 3
            if p % 4 != 3 or not _is_probable_prime(p):
                continue
            vals = {}
            ok = True
            for idx in sorted(c.rel):
                k = self._poly(c.rel[idx], vals, p)
                if k is None or (k != 0 and pow(k, (p - 1) // 2, p) != 1):
                    ok = False
                    break
                vals[idx] = pow(k, (p + 1) // 4, p)
            if ok:
                self.p, self.vals = p, vals
                return

    def _poly(self, poly, vals, p):
        tot = 0
        for mon, cf in poly.terms():
            den = int(cf.denominator) % p
            if den == 0:
                return None
            t = int(cf.numerator) % p * pow(den, -1, p) % p
            for idx, e in enumerate(mon):
                if e:
                    if idx not in vals:
                        return None
                    t = t * pow(vals[idx], e, p) % p
            tot = (tot + t) % p
        return tot

    def __call__(self, v):
        p = self.p
        if isinstance(v, X):
            n = self._poly(v.v.numer, self.vals, p)
            d = self._poly(v.v.denom, self.vals, p)
            if n is None or d is None or d == 0:
                raise ZeroDivisionError("unlucky prime")
            return n * pow(d, -1, p) % p
        v = Fraction(v)
        d = v.denominator % p
        if d == 0:
            raise ZeroDivisionError("unlucky prime")
        return v.numerator % p * pow(d, -1, p) % p


def rank_mod(M, c, tries=3):
    """Lower bound of the rank of M (entries Fraction / ground exact X) = rank of its image in F_p (max over a few primes).
    Sound: a non-zero minor mod p is non-zero.  Equality with an independently proved upper bound is a proof of the rank."""
    M = np.asarray(M)
    best = -1
    for t in range(tries):
        try:
            mm = ModMap(c, seed=t)
            p = mm.p
            A = [[mm(M[i, j]) for j in range(M.shape[1])] for i in range(M.shape[0])]
        except ZeroDivisionError:
            continue
        nr, nc = len(A), len(A[0]) if A else 0
        r = 0
        for col in range(nc):
            piv = next((i for i in range(r, nr) if A[i][col]), None)
            if piv is None:
                continue
            A[r], A[piv] = A[piv], A[r]
            inv = pow(A[r][col], -1, p)
            rowr = A[r]
            for i in range(r + 1, nr):
                f = A[i][col] * inv % p
                if f:
                    Ai = A[i]
                    A[i] = [(a - f * b) % p for a, b in zip(Ai, rowr)]
            r += 1
            if r == nr:
                break
        best = max(best, r)
        if best == min(nr, nc):
            break
    return best
