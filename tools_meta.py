#!/usr/bin/env python3
"""tools_meta.py <name> <tag> <status> <added> <caught_by,comma separated>: seeded/<name>/meta.json from the agent's meta + what the checks did; copies original_*.py."""
import json, sys, os, glob, shutil
name, tag, status, added, caught = sys.argv[1:6]
sd = f"/tmp/seed_{tag}"
d = f"/verif/seeded/{name}"
a = json.load(open(f"{d}/meta_agent.json")) if os.path.exists(f"{d}/meta_agent.json") else {}
pid = name.split("_")[0]
m = dict(property=pid, summary=a.get("summary", ""), needs=a.get("needs", ""), files=a.get("files", []), status=status,
         caught_by=[c for c in caught.split(",") if c], what_was_added=added,
         confirmed_by=[f"./tools_seed.sh confirm {tag} {name}: demo.py exits 1 with the change and 0 without; pinned suite 511/511 with the change", f"./tools_seed.sh run {name} {pid}"],
         original_findings=a.get("original_findings", a.get("original_code_findings", [])))
json.dump(m, open(f"{d}/meta.json", "w"), indent=1)
os.makedirs(f"{d}/original", exist_ok=True)
for f in glob.glob(f"{sd}/original_*.py") + glob.glob(f"{sd}/_closure.py"):
    shutil.copy(f, f"{d}/original/")
print(name, status, len(m["original_findings"]), "findings", len(os.listdir(f"{d}/original")), "originals")
