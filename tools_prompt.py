#!/usr/bin/env python3
"""tools_prompt.py <ID> [<tag>] : text given to a seeding agent (property text only, nothing of /verif).
The worktree is /tmp/wt_<ID><tag>, the agent's output directory /tmp/seed_<ID><tag>."""
import json, sys
pid = sys.argv[1]; tag = sys.argv[2] if len(sys.argv) > 2 else ""
P = {json.loads(l)["id"]: json.loads(l) for l in open("/verif/properties.jsonl")}[pid]
wt = f"/tmp/wt_{pid}{tag}"; sd = f"/tmp/seed_{pid}{tag}"
hint = sys.argv[3] if len(sys.argv) > 3 else ""
print(f"""You are testing a verification effort by playing the adversary. You work ONLY inside the git worktree {wt} (a checkout of the Python finite-element library EasyFEA, package directory {wt}/EasyFEA). Do not read or touch /verif or /repo. Nothing needs network access (there is none).

PROPERTY that the library is supposed to satisfy:
  Title: {P['title']}
  Statement: {P['statement']}
  Quantified over: {P['quantifier']['text']}
  Code it is anchored in: {', '.join(P['anchors']['files'])}

TASK 1: produce ONE realistic source change (a plausible bug a maintainer could introduce: an off-by-one, a wrong sign/coefficient/index in one branch, a swapped argument, a missed case, a stale cache, two cooperating sites that each look fine alone...) inside {wt}/EasyFEA that BREAKS this property, while
  (a) the package still imports, and
  (b) the existing test suite still passes. Run it with:  cd {wt} && PYTHONPATH={wt} /venv/bin/python -m pytest -q -p no:cacheprovider --timeout=900 -n 6 -q tests --ignore=tests/Utilities/MeshIO_test.py --ignore=tests/Utilities/USD_test.py 2>&1 | tail -5   (about 2-4 minutes; tests in the two ignored files fail without any change because the sandbox is offline).
The change must need something SPECIFIC to manifest: one particular element type / algorithm / parameter range / unusual-but-valid input / a multi-step sequence of operations / two cooperating sites -- NOT something that ordinary use or the existing tests would expose at once. Prefer a change in the code that actually implements the property (not in tests, not in docs). Keep it small (a few lines). Do not just raise an exception or delete functionality. {hint}

Write a DEMONSTRATION: a small standalone script {sd}/demo.py, run as  PYTHONPATH={wt} /venv/bin/python {sd}/demo.py , that exits 0 and prints PASS on the ORIGINAL code and exits 1 and prints FAIL (with the numbers showing the violation of the property) on the CHANGED code. Verify both yourself (to switch between original and changed code, save your change with `git -C {wt} diff > {sd}/patch.diff`, remove it with `git -C {wt} apply -R {sd}/patch.diff` and put it back with `git -C {wt} apply {sd}/patch.diff`; NEVER use `git stash`, `git checkout` of other branches or `git commit`: the repository is shared with other people working in other worktrees). Use the public API of EasyFEA where possible. Meshes can be built offline with the library's own gmsh-based mesher (e.g. `from EasyFEA.Geoms import Domain, Point; Domain(Point(), Point(1,1), 0.25).Mesh_2D([], ElemType.TRI3)`), see tests/ and examples/ for usage.

TASK 2 (while you read the code): look for inputs on which the ORIGINAL, unchanged code ALREADY violates the property (valid inputs within 'Quantified over'). For each one you can actually demonstrate, write a standalone script {sd}/original_<k>.py (same conventions: prints the numbers, exits 1 when the property is violated on the original code). Only report what you reproduced; say plainly if you found none. Do not spend more than about a third of your effort on this.

When done: leave the change of task 1 APPLIED (uncommitted) in {wt}, save it with  git -C {wt} diff > {sd}/patch.diff , and write {sd}/meta.json with keys: property, summary (what the change does), needs (what specific input/sequence is needed for it to manifest), files (changed files), tests_run (the exact command you ran and its tail output), original_findings (list of strings, may be empty). Finally reply with a short report: the diff, what it needs to manifest, the demo output on original and changed code, the test-suite result, and the task-2 findings. Be efficient: do not explore more of the repository than you need.""")
