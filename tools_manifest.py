#!/usr/bin/env python3
"""Regenerates MANIFEST.json from the table below and validates it against the schema."""
import json, os, sys
HERE = os.path.dirname(os.path.abspath(__file__))

CHECKS = {
 "C05": dict(level="proof", design="DESIGN.md 3/C05",
   text="All time-scheme functions of _simu.py are extracted from the source at run time and executed on formal linear combinations (abstract K,C,M of any size, abstract state vectors, exact rational-function coefficients in dt,alpha,beta,gamma); update relations, evaluation points, discrete equation of motion, weights and the energy identities are decided as ring identities for all parameters and all prior states.",
   note="Trusted: Python semantics of the executed subset; floats read as exact rationals; scipy.sparse linear-algebra operators as formal algebra; sympy normal form. Energy clauses assume K,M symmetric (+ Newmark's own invariant M a_n + K u_n = 0). Dirichlet elimination is C04's contract.",
   technique="contract-based deductive verification: symbolic execution of the extracted real functions, VCs = rational-function identities discharged by ring normal form"),
 "C06": dict(level="proof", design="DESIGN.md 3/C06",
   text="All 19 Lagrange element classes and 4 Hermite beam families are re-assembled from the ASTs of Elems/*.py; every shape-function and derivative table entry is evaluated on the generators of QQ(r,s,t) and Kronecker property, partition of unity, polynomial completeness and the four derivative tables are decided as polynomial identities.",
   note="Trusted: Python lambda/arithmetic semantics, float literals read as the decimal rationals they spell, sympy normal form and differentiation, element metadata from DICT_GMSH_DATA. Hermite clauses use an exactly-evaluated 1e-12 tolerance (decimal-typed tables). _Eval_Functions is checked at 4 concrete loop-bound tuples (bounded).",
   technique="contract-based deductive verification: extracted tables evaluated in a polynomial ring, VCs = polynomial identities discharged by normal form"),
 "C07": dict(level="proof", design="DESIGN.md 3/C07",
   text="Every tabulated quadrature rule and every (element type, matrix type) pair of Gauss_factory is executed from the extracted AST in exact arithmetic (decimal literals as rationals, np.sqrt as algebraic numbers): points inside, weights positive and summing to the reference measure, exactness for every monomial of the documented order, and the necessary rank count on 2-element patches. Finite and ground, hence complete.",
   note="Trusted: closed-form reference integrals, exact reading of literals, independence of sqrt(prime) generators, leggauss external (values checked at run time, labelled bounded). Tolerance 1e-13 x reference measure. Actual ranks of assembled matrices are C02's obligations. Known finding: TRI15 mass rule.",
   technique="contract-based deductive verification: extracted rule tables executed exactly, ground VCs discharged by exact algebraic-number arithmetic"),
 "C11": dict(level="proof", design="DESIGN.md 3/C11",
   text="Isotropic, TransverselyIsotropic and Orthotropic law classes are re-assembled from the AST and _Behavior is executed with symbolic moduli: plane-stress/plane-strain reductions, S C = I, symmetry are ring identities; SPD is a nonlinear-real query (z3/cvc5) under the admissibility conditions; Get_Pmat/Apply_Pmat are executed on a Cayley-parametrised rotation with symbolic axis lengths: P orthogonal for every rotation and every axis length, Apply_Pmat equals the Kelvin-Mandel image of the rotated 4th-order tensor.",
   note="Trusted: numpy model vt/npshim.py (allocators, sqrt, linalg.inv/det/norm, einsum on exact scalars), np.linalg.inv contract, sympy, z3/cvc5. Not covered (listed in evidence.not_attempted): Anisotropic law notation clause, heterogeneous parameter fields, lazy update (effect contract). Batched Get_Pmat shapes are bounded (e,p <= 2).",
   technique="contract-based deductive verification: symbolic execution of extracted law classes; ring identities by normal form, positivity by z3 QF_NRA"),
 "C03": dict(level="proof", design="DESIGN.md 3/C03",
   text="The dof-numbering and row/column index functions (_Get_assembly_e, Get_rows_e, Get_columns_e) are extracted and executed on symbolic-size integer arrays: postconditions proved by z3 for an unbounded number of elements and arbitrary connectivity, for every nodes-per-element of a supported type and dofs-per-node; Assembly() slot order on a recording receiver; row-major and permutation lemmas. The scipy-backed CSR slot map is covered by bounded run-time contract checks of the real Assembly() against a dense scatter-add (mixed groups, None slots, complex data, cached-map reuse) -- labelled bounded, not counted as proved.",
   note="Trusted: vt/lam.py numpy model for symbolic-size arrays, mathematical integers, z3. Assumed (only cross-checked on bounded cases): scipy COO->CSR, sort_indices, searchsorted, bincount contracts. MPI_SIZE == 1.",
   technique="contract-based deductive verification: VCs over integers/uninterpreted connectivity generated by symbolic execution of the extracted index functions, discharged by z3; bounded run-time contracts for the scipy-backed slot map"),
 "C01": dict(level="other", design="DESIGN.md 3/C01",
   text="Closed-form Det/Inv/Trace and the placement of the strain-displacement operator are proved for all values (ring identities on the extracted source). The isoparametric pipeline and element operators are the real functions run natively on exact field elements on star patches of every element type (interior vertex node, affine exact-rational geometry, symbolic gradient and offset): gradients are exactly G and interior residuals vanish within 2^-40. The full Solve() and post-processing are exercised natively in floats per element type as a bounded run-time contract.",
   note="Bounded: one star patch per type; isotropic law; external sparse solver, assembly (C03) and elimination (C04) by contract. numpy model vt/npshim.py and the patches of vt/symrun.py are trusted. X-tier obligations are sampled native runs, not proof.",
   technique="contract-based verification: ring identities on extracted closed-form code (proved) + bounded symbolic execution of the real pipeline on exact values (bounded stand-in) + run-time contracts on native solves"),
 "C02": dict(level="other", design="DESIGN.md 3/C02",
   text="Real element operators run natively on exact values on 2-element conforming patches of all 19 element types: congruence form sum wJ B^T C B (PSD structure), symmetry and kernel inclusion as exact identities; no spurious mode and SPD mass as exact ranks (rank of the image in F_p as sound lower bound matched by the exact kernel upper bound), total mass within 2^-40.",
   note="Bounded: 2-element patches (the smallest meshes of the quantifier), one isotropic law / conductivity; Gauss points are the code's floats read exactly; beams not covered. Known finding: TRI15 mass.",
   technique="contract-based verification, bounded stand-in: symbolic/exact execution of the real operators against postconditions (identities and exact ranks)"),
 "C14": dict(level="other", design="DESIGN.md 3/C14",
   text="Invalidation/notification effect contracts (I_obs, I_flag, I_cache) are decided on the AST, path by path, for every method of Mesh, _GroupElem, _Simu and the parameter/observer plumbing; by induction over operations they hold after any sequence of public operations. Complemented by the exhaustive enumeration of operation sequences of bounded length (11-letter mutator alphabet, interleaved assemblies) on a small Elastic simulation against a fresh simulation in the final configuration.",
   note="E-tier limits: no aliasing/reflection analysis, MPI_SIZE == 1, loops abstracted to 0/1 iterations, effect groups chosen by the contract author (cross-checked by the bounded histories). Histories: one simulation type, length <= 2 (quick) / 3 sampled (thorough), floats with 1e-11.",
   technique="contract-based verification: frame/effect contracts (must-call on every path) checked on the AST + bounded enumeration of histories as run-time contracts"),
 "C17": dict(level="other", design="DESIGN.md 3/C17",
   text="AT1/AT2 terms, the history maximum and the bound passed to the constrained solver are proved from the extracted source on symbolic values. The 2-D eigen-decomposition is the real method run on exact symbolic strains for every combination of generic/zero/hydrostatic/uniaxial/shear points in small fields (identities modulo s^2 = delta: complete in values). All 14 splits in 2-D and 3-D and the 3-D Lode-angle eigen code are checked by run-time contracts on the real model at designated degenerate, generic and mixed-within-element strain fields (finite, cP+cM=C, stress and energy partition, projectors vs numpy eigh).",
   note="3-D eigen code uses arccos/cos (not algebraic): float run-time contracts only (14 designated fields, tolerance 1e-9 / 1e-6 for closed-form eigenvalues). Monotonicity of the solved damage for the unconstrained solver and staggered convergence are not addressed.",
   technique="contract-based verification: symbolic execution of extracted closed-form code (proved) + exact execution of the real 2-D eigen method (bounded) + run-time contracts on designated states"),
 "C15": dict(level="other", design="DESIGN.md 3/C15",
   text="Freshness of the state getters, purity of Get_results, the append-only pinned history of Save_Iter and Save/Set key coverage per simulation class are decided on the AST (all histories). Exact restoration is checked by bounded native histories for six simulation types: three solve/save steps, folder changes in between, reads, restores in several orders followed by further solves, static and dynamic; plus a Save/Load_Simu round trip.",
   note="pickle and the file system are external (assumed). Histories are bounded (3 steps, one mesh, one schedule per mode); user-held aliases of returned arrays are outside the property. MPI_SIZE == 1.",
   technique="contract-based verification: effect/freshness contracts on the AST + bounded histories as run-time contracts (exact equality)"),
 "C12": dict(level="other", design="DESIGN.md 3/C12",
   text="Index-bookkeeping helpers (_KeepsFeAxes, dot/ddot subscripts, broadcast decision table) are decided exhaustively on their finite domains. The operators are the real FeArray methods: on the fully colliding shape Ne=nPg=dim=2 with distinct symbolic entries every result entry is a polynomial identity; on the shape grid (all collisions, ranks 0-4, both operand orders, FeArray/ndarray/scalar/Field operands, 24 ufuncs, 11 reducers x all axes, dispatched functions, closed-form Det/Inv/Trace/TensorProd) they are compared with explicit per-(e,p) numpy loops on integer-valued data, including the result-type rule.",
   note="Grid bounded to Ne, nPg, dim <= 3 (10 shapes quick, 27 thorough); integer sample data for the run-time tier (operations do not branch on values); numpy's tensordot/einsum is the per-point oracle.",
   technique="contract-based verification: exhaustive finite-domain contracts + symbolic execution of the real operators on the colliding shape (bounded) + run-time contracts over the shape grid"),
 "C10": dict(level="other", design="DESIGN.md 3/C10",
   text="Beam axes: the local-to-global matrix P = [i j ixj] (orthonormal for any orthonormal pair, Cayley-parametrised) and the block matrix applied to global dofs (must be blockdiag(P^T)) are decided symbolically from the extracted source. Continuum elements: the real operators run on exact values give Q K_e Q^T (K_e for scalar problems) under rational rigid motions and reflections. Whole problems are run natively as bounded contracts: cantilevers at generic inclinations (EB/Timoshenko, 2-D/3-D) respond identically in their own axes; elastic/thermal patches rotated, translated and mirrored (isotropic and anisotropic with rotated axes) give the transformed solution and the same energy.",
   note="B/X tiers bounded to small patches, one motion each, one cantilever; global statement relies on C03/C04 contracts; hyperelastic objectivity and one-step dynamics not covered here.",
   technique="contract-based verification: symbolic execution of extracted axis code (proved) + exact execution of real operators under rational motions (bounded) + run-time contracts on native solves"),
 "C13": dict(level="other", design="DESIGN.md 3/C13",
   text="Assemble index pairing (values with rows_e/columns_e, resp. assembly_e and column 0; matrix shapes) is decided from the extracted source on a recording receiver, against the index contracts proved in C03. Element integration is the real form machinery: exact arithmetic for three basic forms, run-time contracts for a grammar of ten bilinear and two linear forms (scalar and vector fields, position-dependent coefficient, trace/transpose variants) per element type against the real built-in operators with the same quadrature; Assemble vs scatter-add; weak-form simulations vs the dedicated thermal/elastic simulations in static, parabolic and hyperbolic use.",
   note="Form grammar bounded to the listed forms; 2-element patches / star patches; floats with 1e-12 (1e-10 for solves). Built-in operators are the oracle (their contracts are C01/C02).",
   technique="contract-based verification: extracted index code against proved callee contracts + exact / run-time contracts of the real forms against the real operators"),
 "C08": dict(level="other", design="DESIGN.md 3/C08",
   text="Element tables (origin, faces, surfaces of every element type) are decided exactly on the reference element from the extracted element files; the real normal / jacobian / measure code is run on exact rational and symbolic coordinates: measure and centre of every affine image with a symbolic matrix in both orientations, area of a QUAD4 with symbolic nodes against the shoelace polynomial, unit / orthogonal / right-handed / rotation-covariant normals; Translate / Rotate / Symmetry of Geoms are decided from the AST as isometries (Rotate proper, Symmetry involutive). Native run-time contracts (bounded) cover gmsh meshes of seeded random polygons with holes and prisms over them (area, perimeter, volume, centre, invariance under motions, closure and sign of boundary normals, boundaries reconstructed from volume faces, embedded surfaces), point location and interpolation (interior / edge / node queries, single, pair and batch, plain / rotated / mirrored / embedded meshes, distorted quadrangles and hexahedra, exact containment on lattice points) and Calc_projector.",
   note="Outwardness of gmsh-produced boundary groups and of mirrored meshes is violated (4 known findings). gmsh, KD-tree and least-squares are external; point location is bounded (seeded meshes, 24 queries each, 1e-6); serendipity elements are only required to reproduce linear fields on non-affine elements; hexahedra with planar faces only.",
   technique="contract-based verification: exact evaluation of extracted element tables + real geometry code run on exact rational / symbolic coordinates (polynomial identities by normal form) + symbolic execution of extracted rigid-motion functions + run-time contracts on native gmsh meshes"),
 "C09": dict(level="other", design="DESIGN.md 3/C09",
   text="The resultant lemma (partition of unity => nodal forces sum to the quadrature of the density) ties the clause to C06/C07 (z3). The point-load split is decided symbolically from the extracted source. Get_Elements_Nodes(exclusively=True) is enumerated exhaustively over every node subset of small meshes. Resultants, first moments, the 2-D thickness factor, stray nodes and the pressure resultant are run-time contracts of the real load API on gmsh-generated box meshes (boundary groups as generated, prism meshes with mixed TRI/QUAD boundary) against closed-form integrals, for constant, nodal-array and polynomial intensities.",
   note="Box domains with straight faces; intensities up to the rule's degree; one thickness; seeded random coefficients. gmsh is external. Beam Hermitian line loads not covered.",
   technique="contract-based verification: lemma over callee contracts + symbolic execution of extracted code + exhaustive bounded enumeration + run-time contracts on native runs"),
 "C04": dict(level="other", design="DESIGN.md 3/C04",
   text="The elimination solver __Solver_1 is executed from the extracted source in a formal block algebra (abstract blocks of any size, the linear solver replaced by its contract): the returned vector holds the prescribed values on the constrained dofs and satisfies the free rows. The known/unknown split, the node->dof lookup, the incremental Dirichlet values of Newton iterations, the orphan-node diagonal and the library solver call sites are decided from the extracted source. The multiplier solver __Solver_2 is run from the source on exact small systems and the system it hands to the linear solver compared structurally with [[A, aC'],[aC, 0]]; a z3 lemma carries that to 'constraints exact'. Native solves (bounded, run-time contracts) cover overlapping / duplicated conditions, orphan nodes, every installed iterative back end, multi-point constraints, beam connections and the Newton path.",
   note="Block model of sparse fancy indexing is trusted; iterative back ends are only compared on one problem at 1e-4; PETSc/pypardiso/MPI absent; lsq_linear not exercised.",
   technique="contract-based verification: symbolic execution of extracted solver code in a formal block algebra against the linear-solver contract + z3 lemma + bounded structural comparison + run-time contracts on native solves"),
 "C16": dict(level="other", design="DESIGN.md 3/C16",
   text="Component extraction (names -> indices, Kelvin-Mandel factor removed) and the von Mises formula are decided symbolically from the extracted source. The energy identity Wdef = 1/2 u'Ku is a polynomial identity in a symbolic nodal state on exact patches (real B, wJ, element operator, scatter-add by C03's contract). Every advertised result name of the Elastic (2-D, 3-D, mixed groups), Thermal, Beam (2-D, 3-D), PhaseField, HyperElastic and InElastic simulations is exercised on arbitrary non-equilibrium states with run-time contracts tying named results to vector/tensor results, Svm, energies, node<->element conversion and reaction balance.",
   note="One mesh and one seeded random state per simulation type; beam internal forces and phase-field energies are only checked for availability; floats with 1e-10.",
   technique="contract-based verification: symbolic execution of extracted result code + exact polynomial identity on the real operators (bounded) + run-time contracts on native runs"),
 "C18": dict(level="other", design="DESIGN.md 3/C18",
   text="Invariants I1..I8 and the kinematic operators De / Deta / C: the real HyperElasticState methods run on symbolic tensors and are differentiated exactly (Kelvin-Mandel gradient and Hessian, sym(F' grad v), C(QF) = C(F)). Laws (Neo-Hookean, Mooney-Rivlin, Ciarlet-Geymonat, Saint-Venant-Kirchhoff, Holzapfel-Ogden): the extracted Compute_W / dWde / d2Wde run on formal invariants and formal gradient / Hessian atoms and their coefficients are compared with sympy derivatives of the returned energy for all invariant values and all parameters; a frame scan shows the laws read C only, so stress = dW/dE, tangent = dS/dE, objectivity and the stress-free reference hold for every deformation. Element operators (pointwise PK2, Gonzalez discrete gradient, strain-path quadrature, active stress, Kelvin-Voigt, follower pressure, penalty contact): the real code runs on exact rationals along u0 + t d and K_e d == dR_e/dt is decided as a polynomial / rational identity in t; the one-step energy balance R.(u_n+1 - u_n) == integral of W_n+1 - W_n likewise. Native run-time contracts (bounded) repeat this with every law, the jax AutoDiff law with a user energy, and free motions over many steps.",
   note="Operator obligations are instances (seeded rational state per element type, Saint-Venant-Kirchhoff so that the field is rational): bounded. Energy conservation over many steps is native and bounded; per step it follows from C18.energy.* and C05. sympy simplification is trusted. Holzapfel-Ogden reference needs orthogonal fibres.",
   technique="contract-based verification: symbolic execution of extracted constitutive code on formal invariants (sympy) + real kinematics / element operators run on exact symbolic values with exact differentiation + AST frame scan + run-time contracts on native runs"),
 "C19": dict(level="other", design="DESIGN.md 3/C19",
   text="Purity is an effect contract decided on the AST for every call sequence: no method reachable from Behavior.Integrate stores to self or writes into an argument (only into arrays it allocated), and the simulation's committed state is bound only by __init__ / Save_Iter / Set_Iter and never written in place. The pieces of the local solve are decided symbolically for all arguments and parameters: yield surfaces (von Mises, Hill, Drucker-Prager: phi^2 is the declared quadratic form, N = df/dsig, dNdSig = dN/dsig, on a symbolic stress with radicals by relation), isotropic hardening laws (R = dpsi/dp, dR = R'), Armstrong-Frederick back-stress, Norton / Perzyna rate laws (inverse and its slope). The return mapping is an iterative float solve: admissibility f <= 0, d gamma >= 0, monotone p, traceless plastic strain, sigma:d eps - d psi >= 0, consistent tangent vs Richardson finite differences, sigma_zz = 0, agreement of the spectral and Newton local solvers, the elastic limit, and bit-identical repeated calls are run-time contracts along seeded loading / unloading / reversal / non-proportional strain paths for constructor combinations (19 quick, 90 thorough), plus simulation-level and MaterialPoint runs.",
   note="Inequalities over all strain paths are bounded (seeded paths, 12 points x 35 steps per configuration). Points whose local solve reports non-convergence leave the experiment (the property ranges over steps that converge). Tangent checked away from the elastic/plastic switch. Swift exponent instantiated.",
   technique="contract-based verification: AST effect/frame contracts + symbolic execution of extracted / real constitutive pieces (sympy, exact field with radicals) + run-time contracts on native strain paths"),
}
NOT_APPLICABLE = {
}
ALL = [f"C{i:02d}" for i in range(1, 21)]

def main():
    checks = []
    for pid in sorted(CHECKS):
        c = CHECKS[pid]
        checks.append(dict(
            property_id=pid,
            quick_cmd=f"./check {pid} --tier quick",
            thorough_cmd=f"./check {pid} --tier thorough",
            evidence_file=f"evidence/{pid}.json",
            replay_cmd_template=f"./check {pid} --replay {{path}}",
            engine="vt",
            level_claimed=dict(category=c["level"], text=c["text"], design_ref=c["design"]),
            level_note=c["note"], technique=c["technique"]))
    na = [dict(property_id=p, reason=NOT_APPLICABLE.get(p, "check not built yet in this session (no contract machinery registered); see DESIGN.md section 3 for the planned obligations"))
          for p in ALL if p not in CHECKS]
    m = dict(version=1, setup_cmd="./setup.sh",
             hooks=dict(guard="EASYFEA_VERIF", enable="no hook in /repo: all instrumentation is sidecar (checker process only)",
                        baseline_off_cmd="cd /repo && /venv/bin/python -m pytest -ra -q -p no:cacheprovider --timeout=900 --continue-on-collection-errors",
                        source_commits=[], add_only=True),
             engines=[dict(name="vt", path="vt/", serves_properties=sorted(CHECKS),
                           kind_free_text="contract checker: extracts real functions from /repo (AST), executes them on exact symbolic domains, discharges obligations by ring normal form / z3 / cvc5; effect contracts on the AST")],
             checks=checks, not_applicable=na,
             notes="Exit codes: 0 held, 1 violation (VIOLATION line + replay file), 2 undecided only, 3 checker self-check failed. known_findings.json lists genuine defects recorded rather than repaired.")
    with open(os.path.join(HERE, "MANIFEST.json"), "w") as f:
        json.dump(m, f, indent=1)
    try:
        import jsonschema
        jsonschema.validate(m, json.load(open("/root/.vp/MANIFEST.schema.json")))
        for c in checks:
            p = os.path.join(HERE, c["evidence_file"])
            if os.path.exists(p):
                jsonschema.validate(json.load(open(p)), json.load(open("/root/.vp/EVIDENCE.schema.json")))
        print("MANIFEST ok:", len(checks), "checks,", len(na), "not_applicable")
    except ImportError:
        print("jsonschema missing; not validated")

if __name__ == "__main__":
    main()
