"""Generic-point arrays: numpy-shaped values whose leading extents are *symbolic* (Ne elements, nPg
integration points, ...), used to execute extracted functions for ALL values of those extents.

An array of symbolic shape (Ne, nPg, 3, 6) is represented by ONE generic representative per symbolic
axis: `data` is an object ndarray of shape (1, 1, 3, 6) whose entries are exact scalars (`alg.X`)
in atoms that stand for "the value at the generic index (e, p)".  An identity between two such
arrays, established in the field of rational functions of independent atoms, holds at every index
of every symbolic axis, for every extent (universal generalisation); nothing depends on Ne or nPg.

What makes this sound, and is enforced here:
  * a symbolic axis is only ever traversed as a whole (`:`), inserted (`None`), moved, broadcast
    against the same symbol or against 1, or *summed as a whole*; anything that would look at a
    particular index of it (integer / mask / partial slice, reshape merging it) raises
    `Unsupported` -> the obligation is undecided, never discharged;
  * two different symbols never unify, a symbol never unifies with a number other than 1;
    where the real numpy would raise a shape error for generic extents, `ShapeError` is raised;
  * a sum over a symbolic axis D is the formal linear functional `Int[D]`: entries become
    `Int` values {summed axes -> integrand}; they may be added, and scaled by values that do not
    depend on D (checked on the atoms of the multiplier);  Int[D] f == Int[D] g  is decided by
    f == g (sufficient; the contracts are stated as integrals of a given integrand);
  * the same symbol twice in one shape is refused (one generic index per symbol).

`NP(space)` is the numpy namespace given to extracted code; `GFe` models the *contract* of
`FeArray` (C12): fields are padded to the widest tensor rank after the two leading axes, then
broadcast; `.T`, `@`, `dot`, `integrate` act per (e, p).  `FeArray.broadcast` is not modelled: the
real staticmethod is compiled from the AST and attached by the contract modules.
"""
from __future__ import annotations

import itertools
from fractions import Fraction

import numpy as _np

from .alg import Ctx, X
from .core import Unsupported


class ShapeError(Exception):
    """the real numpy would refuse these operand shapes for generic extents"""


class Dim:
    """a symbolic extent"""
    __slots__ = ("name",)

    def __init__(self, name):
        self.name = name

    def __repr__(self):
        return self.name

    # extents are only compared for identity; arithmetic on them is not needed by the contracts
    def __index__(self):
        raise Unsupported(f"the code needs the numerical value of the symbolic extent {self.name}")

    __int__ = __index__

    factors = None
    inner = 1

    def _facs(self):
        return (self,)

    def __mul__(self, o):
        return cdim(self._facs() + (o._facs() if isinstance(o, Dim) else (int(o),)))

    def __rmul__(self, o):
        return cdim(((int(o),) if not isinstance(o, Dim) else o._facs()) + self._facs())

    def _no(self, o):
        raise Unsupported(f"arithmetic on the symbolic extent {self.name}")

    __add__ = __radd__ = __sub__ = __rsub__ = _no


class AllOf:
    """np.arange(N) for a symbolic extent N, used as a selector: every position of an axis of extent N, in order (`.size == N`; indexing such an axis with it is the identity)"""

    def __init__(self, dim):
        self.dim = dim
        self.size = dim
        self.shape = (dim,)
        self.ndim = 1

    def ravel(self):
        return self


class CDim(Dim):
    """extent of a flattened axis: the product, in C order, of symbolic extents and numbers, e.g. Ne*nPe*2.  The index runs over (e, n, k); the representative data carries
    the numerical factors (here nPe*2 entries), generic in the symbolic ones"""
    __slots__ = ("factors", "inner")

    def __init__(self, factors):
        self.factors = tuple(factors)
        self.inner = 1
        for f in self.factors:
            if not isinstance(f, Dim):
                self.inner *= int(f)
        Dim.__init__(self, "*".join(str(f) for f in self.factors))

    def _facs(self):
        return self.factors

    def syms(self):
        return [f for f in self.factors if isinstance(f, Dim)]


_CDIMS: dict = {}


def cdim(factors):
    factors = tuple(f for f in factors if isinstance(f, Dim) or int(f) != 1)
    if not any(isinstance(f, Dim) for f in factors):
        n = 1
        for f in factors:
            n *= int(f)
        return n
    if len(factors) == 1:
        return factors[0]
    key = tuple(id(f) if isinstance(f, Dim) else int(f) for f in factors)
    if key not in _CDIMS:
        _CDIMS[key] = CDim(factors)
    return _CDIMS[key]


NE, NPG = Dim("Ne"), Dim("nPg")


def _is_sym(d):
    return isinstance(d, Dim)


def _syms_of(d):
    """the plain symbolic extents inside an extent"""
    if isinstance(d, CDim):
        return d.syms()
    return [d] if isinstance(d, Dim) else []


def _conc(shape):
    return tuple((d.inner if _is_sym(d) else int(d)) for d in shape)


def _check_shape(shape):
    syms = [x for d in shape for x in _syms_of(d)]
    if len(set(map(id, syms))) != len(syms):
        raise Unsupported(f"shape {shape} carries the same symbolic extent twice")
    return tuple(shape)


# ---------------------------------------------------------------------------------------------- scalars

class Int:
    """formal integral(s): {frozenset of summed Dims -> integrand X}; the empty key is a plain value"""
    __slots__ = ("sp", "t")

    def __init__(self, sp, t):
        self.sp, self.t = sp, {k: v for k, v in t.items() if not sp.ctx.iszero(v)}

    @staticmethod
    def lift(sp, v):
        if isinstance(v, Int):
            return v
        return Int(sp, {frozenset(): sp.const(v)})

    def _add(self, o, sgn):
        o = Int.lift(self.sp, o)
        t = dict(self.t)
        for k, v in o.t.items():
            t[k] = (t[k] + sgn * v) if k in t else sgn * v
        return Int(self.sp, t)

    def __add__(self, o): return self._add(o, 1)
    __radd__ = __add__
    def __sub__(self, o): return self._add(o, -1)
    def __rsub__(self, o): return (-self)._add(o, 1)
    def __neg__(self): return Int(self.sp, {k: -v for k, v in self.t.items()})
    def __pos__(self): return self

    def __mul__(self, o):
        if isinstance(o, Int):
            if set(o.t) <= {frozenset()}:
                o = o.t.get(frozenset(), self.sp.const(0))
            elif set(self.t) <= {frozenset()}:
                return o * self.t.get(frozenset(), self.sp.const(0))
            else:
                raise Unsupported("product of two integrals")
        o = self.sp.const(o)
        dep = self.sp.deps_of(o)
        for k in self.t:
            if dep & k:
                raise Unsupported(f"an integral over {set(k)} is multiplied by a value that depends on the summed index")
        return Int(self.sp, {k: v * o for k, v in self.t.items()})

    __rmul__ = __mul__

    def __truediv__(self, o):
        if isinstance(o, Int):
            if set(o.t) <= {frozenset()}:
                o = o.t.get(frozenset(), self.sp.const(0))
            else:
                return Quot(self.sp, self, o)
        o = self.sp.const(o)
        return self * (1 / o)

    def __rtruediv__(self, o):
        # x / integral: a quotient (kept formal)
        if isinstance(o, (Int, Quot)):
            raise Unsupported("quotient of integrals")
        return Quot(self.sp, self.sp.const(o), self)

    def summed(self, dims):
        dims = frozenset(dims)
        for k in self.t:
            if k & dims:
                raise Unsupported("summed twice over the same symbolic axis")
        return Int(self.sp, {k | dims: v for k, v in self.t.items()})

    def __eq__(self, o):
        if not isinstance(o, (Int, X, int, Fraction, float)):
            return NotImplemented
        o = Int.lift(self.sp, o)
        if set(self.t) != set(o.t):
            return False
        return all(self.t[k] == o.t[k] for k in self.t)

    def __ne__(self, o):
        r = self.__eq__(o)
        return r if r is NotImplemented else not r

    def __hash__(self):
        return hash(tuple(sorted((tuple(sorted(d.name for d in k)), hash(v)) for k, v in self.t.items())))

    def __repr__(self):
        return " + ".join((("Σ_" + ",".join(sorted(d.name for d in k)) + "[" + repr(v) + "]") if k else repr(v)) for k, v in self.t.items()) or "0"


class Quot:
    """num / den with den a complete integral (a number per mesh, e.g. the total measure): what a weighted mean is made of.  num: X or Int"""
    __slots__ = ("sp", "num", "den")

    def __init__(self, sp, num, den):
        self.sp, self.num, self.den = sp, num, den

    def _scale(self, o):
        if isinstance(o, (Int, Quot)):
            raise Unsupported("product of a quotient of integrals with an integral")
        return Quot(self.sp, self.num * o, self.den)

    __mul__ = __rmul__ = _scale

    def __truediv__(self, o):
        if isinstance(o, (Int, Quot)):
            raise Unsupported("quotient of quotients of integrals")
        return Quot(self.sp, self.num / o, self.den)

    def __neg__(self):
        return Quot(self.sp, -self.num, self.den)

    def _add(self, o, sgn):
        if isinstance(o, Quot) and o.den == self.den:
            return Quot(self.sp, self.num + sgn * o.num, self.den)
        if not isinstance(o, Quot) and Int.lift(self.sp, o) == 0:
            return self
        raise Unsupported("sum of quotients with different denominators")

    def __add__(self, o): return self._add(o, 1)
    __radd__ = __add__
    def __sub__(self, o): return self._add(o, -1)

    def summed(self, dims):
        return Quot(self.sp, Int.lift(self.sp, self.num).summed(dims), self.den)

    def __eq__(self, o):
        if isinstance(o, Quot):
            return bool(self.den == o.den) and bool(Int.lift(self.sp, self.num) == Int.lift(self.sp, o.num))
        return NotImplemented

    def __ne__(self, o):
        r = self.__eq__(o)
        return r if r is NotImplemented else not r

    __hash__ = None

    def __repr__(self):
        return f"({self.num!r}) / ({self.den!r})"


def _summed(sp, v, dims):
    if isinstance(v, Quot):
        return v.summed(dims)
    return Int.lift(sp, v).summed(dims)


# ---------------------------------------------------------------------------------------------- space

class Space:
    """declares the atoms of one obligation, builds the exact field, hands out generic arrays"""

    fe_class = None      # class of the fields handed out (set below to the hand-written contract GFe; contract modules install the class re-assembled from FeArray's own source)

    def __init__(self, decls: dict, scalars=(), nspare=4, witness_seed=1):
        self.decls = {k: _check_shape(tuple(v)) for k, v in decls.items()}
        names, self._deps, self._index = [], {}, {}
        for nm, shape in self.decls.items():
            dep = frozenset(x for d in shape for x in _syms_of(d))
            for idx in itertools.product(*[range(s) for s in _conc(shape)]):
                g = nm + "".join(f"_{i}" for i, d in zip(idx, shape) if not (_is_sym(d) and d.inner == 1))
                names.append(g)
                self._deps[g] = dep
                self._index[(nm, idx)] = g
        for s in scalars:
            names.append(s)
            self._deps[s] = frozenset()
        wit = {}
        k = witness_seed
        for n in names:
            k = (k * 7919 + 13) % 10007
            wit[n] = Fraction(k % 97 + 3, (k // 97) % 89 + 5)
        self.ctx = Ctx(names, nspare=nspare, witness=wit)
        self._genidx = {n: i for i, n in enumerate(self.ctx.names)}

    def const(self, v):
        if isinstance(v, X):
            return v
        if isinstance(v, _np.ndarray) and v.ndim == 0:
            v = v.item()
        if isinstance(v, GA) and v.shape == ():
            v = v.data[()]
            if isinstance(v, X):
                return v
        return self.ctx.const(v)

    def sym(self, name) -> X:
        return self.ctx.sym(name)

    def deps_of(self, x: X) -> frozenset:
        """symbolic axes the atoms of x depend on"""
        x = self.ctx.reduce(x)
        used = set()
        for poly in (x.v.numer, x.v.denom):
            for mono in poly.itermonoms():
                for i, e in enumerate(mono):
                    if e:
                        used.add(i)
        out = set()
        for i in used:
            nm = (self.ctx.names + self.ctx.spare)[i]
            if nm in self._deps:
                out |= self._deps[nm]
            else:
                # a radical created during the run: depends on whatever its radicand depends on -- be conservative
                out |= {NE, NPG}
        return frozenset(out)

    def arr(self, name, fe=False) -> "GA":
        shape = self.decls[name]
        data = _np.empty(_conc(shape), dtype=object)
        for idx in itertools.product(*[range(s) for s in _conc(shape)]):
            data[idx] = self.ctx.sym(self._index[(name, idx)])
        return (self.fe_class if fe else GA)(self, shape, data)

    def fe(self, name) -> "GFe":
        return self.arr(name, fe=True)

    def full(self, shape, value, fe=False) -> "GA":
        shape = _check_shape(tuple(shape))
        data = _np.empty(_conc(shape), dtype=object)
        data[...] = self.const(value)
        return (self.fe_class if fe else GA)(self, shape, data)

    def lift(self, a) -> "GA":
        """numbers / nested lists / real ndarrays (exact integers or floats read exactly) / X -> GA"""
        if isinstance(a, GA):
            return a
        if isinstance(a, (X, Int)):
            d = _np.empty((), dtype=object)
            d[()] = a
            return GA(self, (), d)
        arr = _np.asarray(a, dtype=object) if not isinstance(a, _np.ndarray) else a
        if any(isinstance(v, GA) for v in arr.flat) if arr.dtype == object else False:
            return stack(self, a)
        data = _np.empty(arr.shape, dtype=object)
        for idx in _np.ndindex(arr.shape):
            v = arr[idx]
            data[idx] = v if isinstance(v, (X, Int)) else self.const(v.item() if hasattr(v, "item") else v)
        return GA(self, arr.shape, data)


def stack(sp, seq):
    raise Unsupported("nested sequence of generic arrays")


# ---------------------------------------------------------------------------------------------- arrays

def _bshape(*shapes):
    """right-aligned numpy broadcast of symbolic shapes"""
    n = max(len(s) for s in shapes)
    out = []
    for k in range(1, n + 1):
        ds = [s[-k] for s in shapes if len(s) >= k]
        cur = 1
        for d in ds:
            if _is_sym(d):
                if _is_sym(cur) and cur is not d:
                    raise ShapeError(f"operands could not be broadcast together: {shapes} ({cur} against {d})")
                if not _is_sym(cur) and cur != 1:
                    raise ShapeError(f"operands could not be broadcast together: {shapes} ({cur} against {d})")
                cur = d
            else:
                d = int(d)
                if _is_sym(cur):
                    if d != 1:
                        raise ShapeError(f"operands could not be broadcast together: {shapes} ({cur} against {d})")
                elif cur == 1:
                    cur = d
                elif d != 1 and d != cur:
                    raise ShapeError(f"operands could not be broadcast together: {shapes} ({cur} against {d})")
        out.append(cur)
    return tuple(reversed(out))


def _sq(a, b):
    return a * b


_OPS = {
    "add": lambda a, b: a + b, "sub": lambda a, b: a - b, "mul": lambda a, b: a * b, "div": lambda a, b: a / b,
}


class GA:
    __array_priority__ = 10000.0
    __array_ufunc__ = None      # real ndarrays defer to the reflected operators below
    fe = False

    def __init__(self, sp: Space, shape, data):
        self.sp = sp
        self.shape = _check_shape(tuple(shape))
        if not isinstance(data, _np.ndarray) or data.dtype != object:
            d = _np.empty(_np.shape(data), dtype=object)
            d[...] = data
            data = d
        if data.shape != _conc(self.shape):
            raise AssertionError(f"generic array: data {data.shape} does not represent shape {self.shape}")
        self.data = data

    # -- introspection
    @property
    def ndim(self):
        return len(self.shape)

    @property
    def dtype(self):
        return _np.dtype(object)

    @property
    def size(self):
        n = 1
        for d in self.shape:
            if _is_sym(d):
                raise Unsupported("size of an array with symbolic extents")
            n *= d
        return n

    def __len__(self):
        if not self.shape:
            raise TypeError("len() of unsized object")
        if _is_sym(self.shape[0]):
            raise Unsupported("len() of a symbolic axis")
        return self.shape[0]

    def __iter__(self):
        if not self.shape or _is_sym(self.shape[0]):
            raise Unsupported("iteration over a symbolic axis")
        return (self[i] for i in range(self.shape[0]))

    def __repr__(self):
        return f"{type(self).__name__}{self.shape}"

    def _new(self, shape, data, fe=None):
        cls = type(self) if fe is None else (self.sp.fe_class if fe else GA)
        if getattr(cls, "fe", False) and len(shape) < 2:
            cls = GA
        return cls(self.sp, shape, data)

    def copy(self):
        return self._new(self.shape, self.data.copy())

    def view(self, cls=None):
        if cls is None:
            return self._new(self.shape, self.data)
        if cls is GA or cls is _np.ndarray:
            return GA(self.sp, self.shape, self.data)
        if isinstance(cls, type) and issubclass(cls, GA):
            return cls(self.sp, self.shape, self.data)
        if getattr(cls, "__name__", "") == "FeArray":
            return self.sp.fe_class(self.sp, self.shape, self.data)
        raise Unsupported(f"view as {cls}")

    def ravel(self, *a, **k):
        facs = []
        for d in self.shape:
            facs += list(d._facs()) if isinstance(d, Dim) else [int(d)]
        flat = cdim(facs) if facs else 1
        _check_shape((flat,))
        return GA(self.sp, (flat,), self.data.reshape(-1))

    flatten = ravel

    def astype(self, dt, *a, **k):
        if dt in (float, object, int, _np.float64, _np.int64, "float64", "float", "int"):
            return self.copy()
        raise Unsupported(f"astype({dt}) on exact generic values")

    def item(self):
        if self.shape != ():
            raise Unsupported("item() of a non-scalar generic array")
        return self.data[()]

    # -- indexing
    def _index(self, idx):
        """-> (result symbolic shape, index for data)"""
        if not isinstance(idx, tuple):
            idx = (idx,)
        if idx and isinstance(idx[0], AllOf):
            # `np.arange(extent)` used as the list of ALL positions of the leading axis of that extent: the identity selection
            if not self.shape or self.shape[0] is not idx[0].dim:
                raise Unsupported(f"np.arange({idx[0].dim}) indexing an axis of extent {self.shape[:1]}")
            idx = (slice(None),) + idx[1:]
        idx = tuple(i.data[()] if isinstance(i, GA) and i.shape == () else i for i in idx)
        n_real = sum(1 for i in idx if i is not None and i is not Ellipsis)
        if sum(1 for i in idx if i is Ellipsis) > 1:
            raise IndexError("an index can only have a single ellipsis")
        if n_real > self.ndim:
            raise IndexError(f"too many indices for array of shape {self.shape}")
        if any(i is Ellipsis for i in idx):
            k = [i is Ellipsis for i in idx].index(True)
            idx = idx[:k] + (slice(None),) * (self.ndim - n_real) + idx[k + 1:]
        else:
            idx = idx + (slice(None),) * (self.ndim - n_real)
        out, didx, ax = [], [], 0
        adv = []    # (position in out, length) of integer-array indices
        for it in idx:
            if it is None:
                out.append(1)
                didx.append(None)
                continue
            d = self.shape[ax]
            if isinstance(it, slice):
                if _is_sym(d):
                    if it != slice(None):
                        raise Unsupported(f"partial slice {it} of the symbolic axis {d}")
                    out.append(d)
                else:
                    out.append(len(range(*it.indices(d))))
                didx.append(it)
            elif isinstance(it, (int, _np.integer)) or (isinstance(it, X) and it.ground() is not None):
                if _is_sym(d):
                    raise Unsupported(f"integer index into the symbolic axis {d}")
                it = int(it)
                if not -d <= it < d:
                    raise IndexError(f"index {it} is out of bounds for axis {ax} with size {d}")
                didx.append(it)
            else:
                a = _np.asarray(it)
                if a.dtype == bool:
                    raise Unsupported("boolean mask index on a generic array")
                if a.dtype == object:
                    a = _np.array([int(v) for v in a.flat], dtype=int).reshape(a.shape)
                if _is_sym(d):
                    raise Unsupported(f"integer-array index into the symbolic axis {d}")
                if a.size and (a.max() >= d or a.min() < -d):
                    raise IndexError(f"index out of bounds for axis {ax} with size {d}")
                adv.append((len(out), len(didx), a))
                out.append(("adv", len(adv) - 1))
                didx.append(a)
            ax += 1
        if adv:
            # integer arrays indexing consecutive numerical axes broadcast against each other and take the place of those axes (numpy's rule for adjacent advanced indices)
            pos = [k for _, k, _ in adv]
            if pos != list(range(pos[0], pos[0] + len(pos))):
                raise Unsupported("integer-array indices separated by other indices")
            if len(adv) == 1 and adv[0][2].ndim != 1:
                raise Unsupported("multi-dimensional integer-array index")
            bshape = _np.broadcast_shapes(*[a.shape for _, _, a in adv])
            first = [k for k, o in enumerate(out) if isinstance(o, tuple) and o[0] == "adv"][0]
            out = [o for o in out if not (isinstance(o, tuple) and o[0] == "adv")]
            out[first:first] = [int(n) for n in bshape]
        if adv and any(isinstance(i, (int,)) for i in didx):
            # numpy moves the advanced axis to the front when advanced indices (incl. integers) are separated by slices
            ints = [k for k, i in enumerate(didx) if isinstance(i, int)]
            arrs = [k for k, i in enumerate(didx) if isinstance(i, _np.ndarray)]
            lo, hi = min(ints + arrs), max(ints + arrs)
            if any(isinstance(didx[k], slice) or didx[k] is None for k in range(lo, hi + 1)):
                raise Unsupported("integer and integer-array indices separated by a slice (numpy moves the axis to the front)")
        return tuple(out), tuple(didx)

    def __getitem__(self, idx):
        shape, didx = self._index(idx)
        d = self.data[didx]
        if not isinstance(d, _np.ndarray):
            z = _np.empty((), dtype=object)
            z[()] = d
            d = z
        return self._new(shape, d)

    def __setitem__(self, idx, value):
        shape, didx = self._index(idx)
        v = self.sp.lift(value)
        tgt = _bshape(shape, v.shape)
        if tuple(map(repr, tgt)) != tuple(map(repr, shape)):
            raise ShapeError(f"could not broadcast input array from shape {v.shape} into shape {shape}")
        # a value that does not vary along a symbolic axis of the target is fine (broadcast); the converse was refused above
        self.data[didx] = v.data

    # -- arithmetic
    def _operands(self, o):
        return self, self.sp.lift(o)

    def _bin(self, o, op, reflected=False):
        if getattr(o, 'fe', False) and not getattr(self, 'fe', False):
            return o._bin(self, op, not reflected)
        a, b = self._operands(o)
        if reflected:
            a, b = b, a
        shape = _bshape(a.shape, b.shape)
        return GA(self.sp, shape, _OPS[op](a.data, b.data))

    def __add__(self, o): return self._bin(o, "add")
    def __radd__(self, o): return self._bin(o, "add", True)
    def __sub__(self, o): return self._bin(o, "sub")
    def __rsub__(self, o): return self._bin(o, "sub", True)
    def __mul__(self, o): return self._bin(o, "mul")
    def __rmul__(self, o): return self._bin(o, "mul", True)
    def __truediv__(self, o): return self._bin(o, "div")
    def __rtruediv__(self, o): return self._bin(o, "div", True)

    def __iadd__(self, o):
        r = self._bin(o, "add")
        return self._inplace(r)

    def __isub__(self, o):
        return self._inplace(self._bin(o, "sub"))

    def __imul__(self, o):
        return self._inplace(self._bin(o, "mul"))

    def __itruediv__(self, o):
        return self._inplace(self._bin(o, "div"))

    def _inplace(self, r):
        if tuple(map(repr, r.shape)) != tuple(map(repr, self.shape)):
            raise ShapeError(f"non-broadcastable output operand with shape {self.shape} doesn't match the broadcast shape {r.shape}")
        self.data = r.data
        return self

    def __neg__(self):
        return self._new(self.shape, -self.data)

    def __pos__(self):
        return self

    def __pow__(self, e):
        if isinstance(e, (int, _np.integer)) and e >= 0:
            return self._new(self.shape, self.data ** int(e))
        raise Unsupported(f"power {e!r} of a generic array")

    def __abs__(self):
        return self._new(self.shape, _np.vectorize(abs, otypes=[object])(self.data) if self.data.size else self.data)

    def __matmul__(self, o):
        if getattr(o, "fe", False) and not getattr(self, "fe", False):
            # plain array @ field: numpy hands the product to the field (FeArray.__array_ufunc__ routes np.matmul to __rmatmul__)
            return o.__rmatmul__(self)
        return matmul(self, self.sp.lift(o))

    def __rmatmul__(self, o):
        return matmul(self.sp.lift(o), self)

    def __eq__(self, o):
        """elementwise equality with a number / array: decided EXACTLY in the field (two generic values are equal only if identical), result a mask of Python bools"""
        try:
            b = self.sp.lift(o)
        except Exception:
            return NotImplemented
        shape = _bshape(self.shape, b.shape)
        f = _np.frompyfunc(lambda x, y: bool(x == y), 2, 1)
        return GA(self.sp, shape, f(self.data, b.data).astype(object))

    def __ne__(self, o):
        r = self.__eq__(o)
        if r is NotImplemented:
            return r
        return GA(self.sp, r.shape, _np.frompyfunc(lambda m: not m, 1, 1)(r.data).astype(object))

    __hash__ = None

    def _cmp(self, o, op):
        """elementwise order comparison: decided at the witness point of the space, recorded as a path condition by the exact scalars (the result is a mask of Python bools,
        only usable as `where=` of np.divide / condition of np.where: the identity proved afterwards holds on the region where the comparisons come out this way)"""
        a, b = self, self.sp.lift(o)
        shape = _bshape(a.shape, b.shape)
        f = _np.frompyfunc(lambda x, y: bool({"<": x < y, "<=": x <= y, ">": x > y, ">=": x >= y}[op]), 2, 1)
        return GA(self.sp, shape, f(a.data, b.data).astype(object))

    def __lt__(self, o): return self._cmp(o, "<")
    def __le__(self, o): return self._cmp(o, "<=")
    def __gt__(self, o): return self._cmp(o, ">")
    def __ge__(self, o): return self._cmp(o, ">=")

    def __bool__(self):
        raise Unsupported("truth value of a generic array")

    # -- shape manipulation
    @property
    def T(self):
        return self.transpose()

    def transpose(self, *axes):
        if len(axes) == 1 and isinstance(axes[0], (tuple, list)):
            axes = tuple(axes[0])
        if not axes or axes == (None,):
            axes = tuple(reversed(range(self.ndim)))
        axes = tuple(int(a) % self.ndim for a in axes)
        if sorted(axes) != list(range(self.ndim)):
            raise ValueError("axes don't match array")
        return self._new(tuple(self.shape[a] for a in axes), self.data.transpose(axes), fe=False if getattr(self, 'fe', False) and axes[:2] != (0, 1) else None)

    def swapaxes(self, a, b):
        ax = list(range(self.ndim))
        a, b = a % self.ndim, b % self.ndim
        ax[a], ax[b] = ax[b], ax[a]
        return self.transpose(ax)

    def reshape(self, *shape, **kw):
        if len(shape) == 1 and isinstance(shape[0], (tuple, list)):
            shape = tuple(shape[0])
        # allowed: the symbolic axes keep their place at the front (same symbols, same order) and only the concrete tail is reshaped
        k = 0
        while k < self.ndim and k < len(shape) and _is_sym(self.shape[k]) and shape[k] is self.shape[k]:
            k += 1
        rest_old, rest_new = self.shape[k:], tuple(shape[k:])
        if any(_is_sym(d) for d in rest_old) or any(_is_sym(d) for d in rest_new):
            raise Unsupported(f"reshape {self.shape} -> {shape} moves or merges a symbolic axis")
        n_old = int(_np.prod(rest_old)) if rest_old else 1
        rest_new = list(int(d) for d in rest_new)
        if rest_new.count(-1) == 1:
            known = int(_np.prod([d for d in rest_new if d != -1])) if len(rest_new) > 1 else 1
            rest_new[rest_new.index(-1)] = n_old // known if known else 0
        if (int(_np.prod(rest_new)) if rest_new else 1) != n_old:
            raise ValueError(f"cannot reshape array of shape {self.shape} into shape {shape}")
        new = tuple(self.shape[:k]) + tuple(rest_new)
        fe = None
        if getattr(self, 'fe', False) and not (len(new) >= 2 and new[:2] == self.shape[:2]):
            fe = False
        return self._new(new, self.data.reshape(_conc(new)), fe=fe)

    def sum(self, axis=None, keepdims=False, **kw):
        return _reduce_sum(self, axis, keepdims)

    def dot(self, o):
        o = self.sp.lift(o)
        if self.ndim <= 2 and o.ndim <= 2 and self.ndim >= 1 and o.ndim >= 1:
            return matmul(self, o)
        raise Unsupported("ndarray.dot on generic arrays of rank > 2")


def _reduce_sum(a: GA, axis, keepdims=False, keep_fe=None):
    if axis is None:
        axes = tuple(range(a.ndim))
    elif isinstance(axis, (tuple, list)):
        axes = tuple(int(x) % a.ndim for x in axis)
    else:
        axes = (int(axis) % a.ndim,)
    sym = [x for k in axes for x in _syms_of(a.shape[k])]
    data = a.data
    if sym:
        f = _np.vectorize(lambda v: _summed(a.sp, v, sym), otypes=[object])
        data = f(data) if data.size else data
    data = _np.sum(data, axis=axes, keepdims=keepdims) if data.size else _np.zeros(_conc(tuple(d for k, d in enumerate(a.shape) if k not in axes)), dtype=object)
    if not isinstance(data, _np.ndarray):
        z = _np.empty((), dtype=object)
        z[()] = data
        data = z
    shape = tuple((1 if k in axes else d) for k, d in enumerate(a.shape)) if keepdims else tuple(d for k, d in enumerate(a.shape) if k not in axes)
    fe = getattr(a, "fe", False) and all(k >= 2 for k in axes) and len(shape) >= 2
    return (type(a) if fe else GA)(a.sp, shape, data)


def matmul(a: GA, b: GA):
    """numpy matmul on plain generic arrays (batch axes broadcast on the left)"""
    if a.ndim == 0 or b.ndim == 0:
        raise ValueError("matmul: Input operand does not have enough dimensions")
    a2 = a if a.ndim > 1 else a[None, :]
    b2 = b if b.ndim > 1 else b[:, None]
    k1, k2 = a2.shape[-1], b2.shape[-2]
    if _is_sym(k1) or _is_sym(k2):
        if k1 is not k2:
            raise ShapeError(f"matmul: contracted extents {k1} and {k2} differ")
        raise Unsupported("matmul contracting a symbolic axis (use einsum / sum)")
    if k1 != k2:
        raise ShapeError(f"matmul: shapes {a.shape} and {b.shape} not aligned: {k1} != {k2}")
    if _is_sym(a2.shape[-2]) or _is_sym(b2.shape[-1]):
        raise Unsupported("matmul with a symbolic row / column extent")
    batch = _bshape(a2.shape[:-2], b2.shape[:-2])
    data = _np.matmul(a2.data, b2.data)
    shape = batch + (a2.shape[-2], b2.shape[-1])
    out = GA(a.sp, shape, data)
    if a.ndim == 1:
        out = out[..., 0, :]
    if b.ndim == 1:
        out = out[..., 0]
    return out


class GFe(GA):
    """the contract of `FeArray` (decided against the real class by property C12): leading (Ne, nPg), tensor rank ndim - 2"""
    fe = True

    def __init__(self, sp, shape, data):
        super().__init__(sp, shape, data)
        if len(self.shape) < 2:
            raise ValueError("The input array must have at least 2 dimensions.")

    @property
    def _ndim(self):
        return self.ndim - 2

    @property
    def _shape(self):
        return self.shape[2:]

    def _operands(self, o):
        o = self.sp.lift(o)
        ra = self.ndim - 2
        rb = (o.ndim - 2) if isinstance(o, GFe) else o.ndim
        nt = max(ra, rb)
        a = self if ra == nt else self[(slice(None), slice(None)) + (None,) * (nt - ra)]
        if isinstance(o, GFe) and rb < nt:
            o = o[(slice(None), slice(None)) + (None,) * (nt - rb)]
        return a, o

    def _bin(self, o, op, reflected=False):
        a, b = self._operands(o)
        if reflected:
            a, b = b, a
        shape = _bshape(a.shape, b.shape)
        return GFe(self.sp, shape, _OPS[op](a.data, b.data))

    @property
    def T(self):
        if self._ndim == 2:
            return GFe(self.sp, self.shape[:2] + (self.shape[3], self.shape[2]), _np.swapaxes(self.data, -1, -2))
        if self._ndim > 2:
            axes = (0, 1) + tuple(range(self.ndim - 1, 1, -1))
            return GFe(self.sp, tuple(self.shape[a] for a in axes), self.data.transpose(axes))
        return self

    def integrate(self):
        return _reduce_sum(GA(self.sp, self.shape, self.data), 1)

    def _assemble(self, *arrays, value):
        """contract of FeArray._assemble: self[e, p, arrays[0][a], arrays[1][b], ...] = value[e, p, a, b, ...] for every (e, p)"""
        arrays = [_np.asarray(a, dtype=int).ravel() for a in arrays]
        v = self.sp.lift(value)
        if v.ndim != 2 + len(arrays) or tuple(v.shape[2:]) != tuple(len(a) for a in arrays):
            raise ShapeError(f"_assemble: value of shape {v.shape} for index arrays of lengths {[len(a) for a in arrays]}")
        _bshape(self.shape[:2], v.shape[:2])
        for pos in itertools.product(*[range(len(a)) for a in arrays]):
            tgt = tuple(int(a[k]) for a, k in zip(arrays, pos))
            self.data[(slice(None), slice(None)) + tgt] = v.data[(slice(None), slice(None)) + pos]

    def _rank_of(self, o):
        if isinstance(o, GFe):
            return o._ndim
        if isinstance(o, GA):
            return o.ndim
        if getattr(o, "_isFeField", False):
            raise Unsupported("Field operand")
        if isinstance(o, _np.ndarray):
            return o.ndim
        raise TypeError("`other` must be either a FeArray, NDArray or a Field.")

    @staticmethod
    def _wrap(r):
        return r.sp.fe_class(r.sp, r.shape, r.data) if r.ndim >= 2 else r

    def __matmul__(self, o):
        n1, n2 = self._ndim, self._rank_of(o)
        o = self.sp.lift(o)
        if n1 == 1 and n2 == 1:
            return self.dot(o)
        if n1 == 2 and n2 == 2:
            return self._fe_einsum("ij,jk->ik", o)
        if n1 == 1 and n2 == 2:
            return self._fe_einsum("i,ij->j", o)
        if n1 == 2 and n2 == 1:
            return self._fe_einsum("ij,j->i", o)
        return self.dot(o)

    def __rmatmul__(self, o):
        o = self.sp.lift(o)
        if isinstance(o, GFe):
            return o.__matmul__(self)
        n1, n2 = o.ndim, self._ndim
        table = {(2, 2): "ij,jk->ik", (2, 1): "ij,j->i", (1, 2): "i,ij->j", (1, 1): "i,i->"}
        if (n1, n2) not in table:
            raise TypeError("constant @ FeArray is defined for vectors and matrices only.")
        l, r = table[(n1, n2)].split("->")
        l1, l2 = l.split(",")
        return GFe._wrap(einsum(f"{l1},...{l2}->...{r}", o, GA(self.sp, self.shape, self.data)))

    def _fe_einsum(self, subs, o):
        l, r = subs.split("->")
        l1, l2 = l.split(",")
        a = GA(self.sp, self.shape, self.data)
        if isinstance(o, GFe):
            lead = _bshape(self.shape[:2], o.shape[:2])
            return GFe._wrap(einsum(f"EP{l1},EP{l2}->EP{r}", _bto(a, lead + a.shape[2:]), _bto(GA(o.sp, o.shape, o.data), lead + o.shape[2:])))
        return GFe._wrap(einsum(f"EP{l1},{l2}->EP{r}", a, o))

    def dot(self, o):
        n1 = self._ndim
        if n1 == 0:
            raise ValueError("Must be at least a finite element vector (Ne, nPg, i).")
        n2 = self._rank_of(o)
        if n2 == 0:
            raise ValueError("`other` must be at least a finite element vector (Ne, nPg, i).")
        idx1 = "ijkl"[:n1]
        idx2 = "".join(chr(ord(v) + n1 - 1) for v in "ijkl"[:n2])
        end = (idx1 + idx2).replace(idx1[-1], "")
        return self._fe_einsum(f"{idx1},{idx2}->{end}", self.sp.lift(o))

    def ddot(self, o):
        n1 = self._ndim
        if n1 < 2:
            raise ValueError("Must be at least a finite element matrix (Ne, nPg, i, j).")
        n2 = self._rank_of(o)
        if n2 < 2:
            raise ValueError("`other` must be at least a finite element matrix (Ne, nPg, i, j).")
        idx1 = "ijkl"[:n1]
        idx2 = "".join(chr(ord(v) + n1 - 2) for v in "ijkl"[:n2])
        end = (idx1 + idx2).replace(idx1[-1], "").replace(idx1[-2], "")
        return self._fe_einsum(f"{idx1},{idx2}->{end}", self.sp.lift(o))


class GFeBase(GA):
    """base of the class re-assembled from the SOURCE of FeArray (contracts/ops.py: every method of the real class except the numpy protocol hooks): only what the ndarray machinery
    does for the real class is modelled here -- construction, and elementwise operators, which go through the real `FeArray._align` and then broadcast the plain way"""
    fe = True

    def __init__(self, sp, shape=None, data=None, broadcastFeArrays=False):
        if isinstance(sp, GA):          # FeArray(array, broadcastFeArrays=...): the contract of FeArray.__new__
            a = sp[None, None] if (broadcastFeArrays or shape is True) else sp
            sp, shape, data = a.sp, a.shape, a.data
        super().__init__(sp, shape, data)
        if len(self.shape) < 2:
            raise ValueError("The input array must have at least 2 dimensions.")

    def _bin(self, o, op, reflected=False):
        o = self.sp.lift(o)
        a, b = (o, self) if reflected else (self, o)
        a, b = type(self)._align((a, b))                 # the real alignment rule
        a, b = self.sp.lift(a), self.sp.lift(b)
        shape = _bshape(a.shape, b.shape)
        # __array_ufunc__: "broadcasting against a FeArray always keeps the (Ne, nPg) axes": the result is a field
        return type(self)(self.sp, shape, _OPS[op](a.data, b.data))

    def __matmul__(self, o):
        raise NotImplementedError       # replaced by the method of the real class

    def __rmatmul__(self, o):
        raise NotImplementedError


def _bto(a: GA, shape):
    """np.broadcast_to"""
    shape = tuple(shape)
    got = _bshape(a.shape, shape)
    if tuple(map(repr, got)) != tuple(map(repr, shape)):
        raise ShapeError(f"cannot broadcast {a.shape} to {shape}")
    data = _np.broadcast_to(a.data, _conc(shape)).copy()
    return type(a)(a.sp, shape, data) if len(shape) >= 2 or not getattr(a, "fe", False) else GA(a.sp, shape, data)


# ---------------------------------------------------------------------------------------------- einsum

def einsum(subs, *ops, **kw):
    ops = list(ops)
    sp = next(o.sp for o in ops if isinstance(o, GA))
    ops = [sp.lift(o) for o in ops]
    subs = subs.replace(" ", "")
    if "->" in subs:
        lhs, out = subs.split("->")
    else:
        lhs, out = subs, None
    ins = lhs.split(",")
    if len(ins) != len(ops):
        raise ValueError("einsum: number of subscripts and operands differ")
    ell = "ABCDEFGH"
    # expand ellipses with fresh letters, right-aligned
    nell = 0
    for s, o in zip(ins, ops):
        if "..." in s:
            nell = max(nell, o.ndim - (len(s) - 3))
    ell_letters = [c for c in "ΑΒΓΔΘΛΞΠΣΦΨΩ"][:nell]
    full = []
    for s, o in zip(ins, ops):
        if "..." in s:
            k = o.ndim - (len(s) - 3)
            if k < 0:
                raise ValueError("einsum: too many subscripts")
            s = s.replace("...", "".join(ell_letters[nell - k:]))
        if len(s) != o.ndim:
            raise ValueError(f"einsum: operand has {o.ndim} dimensions, subscripts {s!r}")
        if len(set(s)) != len(s):
            raise Unsupported("einsum with a repeated subscript in one operand")
        full.append(s)
    if out is None:
        cnt = {}
        for s in full:
            for c in s:
                cnt[c] = cnt.get(c, 0) + 1
        out = "".join(ell_letters) + "".join(sorted(c for c in cnt if cnt[c] == 1 and c not in ell_letters))
    else:
        out = out.replace("...", "".join(ell_letters))
    dims = {}
    for s, o in zip(full, ops):
        for c, d in zip(s, o.shape):
            if c in dims:
                cur = dims[c]
                if _is_sym(cur) or _is_sym(d):
                    if cur is d:
                        continue
                    if cur == 1 or d == 1:          # numpy broadcasts an extent of 1 under a named subscript too
                        dims[c] = d if cur == 1 else cur
                        continue
                    raise ShapeError(f"einsum {subs!r}: subscript {c} has extents {cur} and {d}")
                if cur != d:
                    if cur == 1 or d == 1:
                        dims[c] = max(cur, d)
                        continue
                    raise ShapeError(f"einsum {subs!r}: subscript {c} has extents {cur} and {d}")
            else:
                dims[c] = d
    for c in out:
        if c not in dims:
            raise ValueError(f"einsum: output subscript {c} not in the inputs")
    # pairwise contraction, left to right: a concrete subscript is summed as soon as no later operand and not the output carries it;
    # symbolic subscripts are kept to the end (the formal integral is taken once, over the complete integrand)
    cur_s, cur_d = full[0], ops[0].data
    rest = list(zip(full[1:], ops[1:]))
    while True:
        later = set("".join(s for s, _ in rest)) | set(out)
        drop = [c for c in cur_s if c not in later and not _is_sym(dims[c])]
        if drop:
            cur_d = _np.sum(cur_d, axis=tuple(cur_s.index(c) for c in drop))
            if not isinstance(cur_d, _np.ndarray):
                z = _np.empty((), dtype=object)
                z[()] = cur_d
                cur_d = z
            cur_s = "".join(c for c in cur_s if c not in drop)
        if not rest:
            break
        s2, o2 = rest.pop(0)
        letters = list(cur_s) + [c for c in s2 if c not in cur_s]
        da = cur_d.reshape(cur_d.shape + (1,) * (len(letters) - len(cur_s)))
        perm = [s2.index(c) for c in letters if c in s2]
        db = o2.data.transpose(perm) if perm else o2.data
        db = db.reshape([(o2.data.shape[s2.index(c)] if c in s2 else 1) for c in letters])
        cur_d = da * db
        cur_s = "".join(letters)
    letters = list(out) + [c for c in cur_s if c not in out]
    prod = cur_d.transpose([cur_s.index(c) for c in letters]) if cur_s else cur_d
    summed = [c for c in letters if c not in out]
    sym_summed = [x for c in summed for x in _syms_of(dims[c])]
    tgt = tuple(_conc((dims[c],))[0] for c in letters)
    prod = _np.broadcast_to(prod, tgt)
    if sym_summed:
        f = _np.vectorize(lambda v: _summed(sp, v, sym_summed), otypes=[object])
        prod = f(prod) if prod.size else prod
    if summed:
        prod = _np.sum(prod, axis=tuple(range(len(out), len(letters))))
    if not isinstance(prod, _np.ndarray):
        z = _np.empty((), dtype=object)
        z[()] = prod
        prod = z
    prod = _np.array(prod, dtype=object, copy=True) if prod.shape else prod
    return GA(sp, tuple(dims[c] for c in out), prod)


# ---------------------------------------------------------------------------------------------- numpy namespace

class NP:
    """what the extracted code sees as `np`"""
    newaxis = None
    pi = None
    ndarray = GA
    floating, integer, float64, int64 = _np.floating, _np.integer, _np.float64, _np.int64
    number = _np.number

    def __init__(self, sp: Space):
        self.sp = sp

    def __getattr__(self, k):
        raise Unsupported(f"np.{k} is not modelled for generic arrays")

    # allocators
    def _alloc(self, shape, v):
        if isinstance(shape, (int, _np.integer, Dim)):
            shape = (shape,)
        return self.sp.full(tuple(shape), v)

    def zeros(self, shape, dtype=None, **k): return self._alloc(shape, 0)
    def ones(self, shape, dtype=None, **k): return self._alloc(shape, 1)
    def empty(self, shape, dtype=None, **k): return self._alloc(shape, 0)
    def zeros_like(self, a, **k): return self.sp.full(self.sp.lift(a).shape, 0)
    def ones_like(self, a, **k): return self.sp.full(self.sp.lift(a).shape, 1)

    def eye(self, n, **k):
        a = self.sp.full((n, n), 0)
        for i in range(n):
            a.data[i, i] = self.sp.const(1)
        return a

    def arange(self, *a, **k):
        if len(a) == 1 and isinstance(a[0], Dim):
            return AllOf(a[0])
        return _np.arange(*[int(x) for x in a], **k)

    def asarray(self, a, dtype=None, **k):
        a = self.sp.lift(a)
        return GA(a.sp, a.shape, a.data)

    array = asarray

    def ndim(self, a):
        return self.sp.lift(a).ndim

    def shape(self, a):
        return self.sp.lift(a).shape

    def sqrt(self, a):
        if isinstance(a, (int, float, Fraction, X)):
            return self.sp.ctx.sqrt(self.sp.const(a))
        a = self.sp.lift(a)
        f = _np.vectorize(lambda v: self.sp.ctx.sqrt(v), otypes=[object])
        return a._new(a.shape, f(a.data))

    def abs(self, a):
        if isinstance(a, X):
            return abs(a)
        return abs(self.sp.lift(a))

    def cross(self, a, b, axisa=-1, axisb=-1, axisc=-1, axis=None):
        """cross product of 3-vectors held along the last axis (broadcast on the others)"""
        if axis not in (None, -1) or (axisa, axisb, axisc) != (-1, -1, -1):
            a_, b_ = self.sp.lift(a), self.sp.lift(b)
            ax = axis if axis is not None else axisa
            if not (ax % a_.ndim == a_.ndim - 1 or a_.ndim == 1) or not ((axis if axis is not None else axisb) % b_.ndim == b_.ndim - 1 or b_.ndim == 1):
                raise Unsupported("np.cross along another axis than the last one")
        a, b = self.sp.lift(a), self.sp.lift(b)
        if not a.shape or not b.shape or a.shape[-1] != 3 or b.shape[-1] != 3:
            raise Unsupported("np.cross of vectors that are not 3-vectors")
        shape = _bshape(a.shape, b.shape)
        A, B = _np.broadcast_arrays(a.data, b.data)
        out = _np.empty(A.shape, dtype=object)
        out[..., 0] = A[..., 1] * B[..., 2] - A[..., 2] * B[..., 1]
        out[..., 1] = A[..., 2] * B[..., 0] - A[..., 0] * B[..., 2]
        out[..., 2] = A[..., 0] * B[..., 1] - A[..., 1] * B[..., 0]
        return GA(self.sp, shape, out)

    @property
    def linalg(self):
        return _GLinalg(self)

    def divide(self, a, b, out=None, where=True, **k):
        a, b = self.sp.lift(a), self.sp.lift(b)
        shape = _bshape(a.shape, b.shape)
        if where is True:
            return type(b)(self.sp, shape, a.data / b.data) if getattr(b, 'fe', False) and len(shape) >= 2 else GA(self.sp, shape, a.data / b.data)
        w = self.sp.lift(where)
        o = self.sp.lift(out) if out is not None else self.sp.full(shape, 0)
        shape = _bshape(shape, w.shape, o.shape)
        pick = _np.frompyfunc(lambda x, y, m, z: (x / y) if m else z, 4, 1)
        data = pick(*_np.broadcast_arrays(a.data, b.data, w.data, o.data)).astype(object)
        cls = self.sp.fe_class if (getattr(b, 'fe', False) or getattr(o, 'fe', False)) and len(shape) >= 2 else GA
        return cls(self.sp, shape, _np.array(data, dtype=object).reshape(_conc(shape)))

    def where(self, cond, a, b):
        c, a, b = self.sp.lift(cond), self.sp.lift(a), self.sp.lift(b)
        shape = _bshape(c.shape, a.shape, b.shape)
        pick = _np.frompyfunc(lambda m, x, y: x if m else y, 3, 1)
        data = pick(*_np.broadcast_arrays(c.data, a.data, b.data)).astype(object)
        cls = self.sp.fe_class if any(getattr(v, 'fe', False) for v in (c, a, b)) and len(shape) >= 2 else GA
        return cls(self.sp, shape, _np.array(data, dtype=object).reshape(_conc(shape)))

    def sign(self, a):
        """sign of exact values: decided at the witness point of the space and recorded as a path condition (the identity proved holds on the region of that sign pattern)"""
        one = lambda v: self.sp.const(self.sp.const(v).sign())
        if isinstance(a, (int, float, Fraction, X)):
            return one(a)
        a = self.sp.lift(a)
        f = _np.vectorize(one, otypes=[object])
        return a._new(a.shape, f(a.data) if a.data.size else a.data)

    absolute = abs

    def sum(self, a, axis=None, keepdims=False, **k):
        return _reduce_sum(self.sp.lift(a), axis, keepdims)

    def einsum(self, subs, *ops, **k):
        r = einsum(subs, *ops)
        # FeArray.__array_function__ (contract): the result is a field exactly when it comes out on the (Ne, nPg) axes of the field operands
        fes = [o for o in ops if getattr(o, "fe", False)]
        if fes and r.ndim >= 2 and all(r.shape[:2] == _bshape(*[f.shape[:2] for f in fes]) for _ in (0,)):
            return self.sp.fe_class(r.sp, r.shape, r.data)
        return r

    def matmul(self, a, b):
        return self.sp.lift(a) @ b

    def swapaxes(self, a, i, j):
        return self.sp.lift(a).swapaxes(i, j)

    def transpose(self, a, axes=None):
        a = self.sp.lift(a)
        return a.transpose(axes) if axes is not None else a.transpose()

    def broadcast_to(self, a, shape, **k):
        a = self.sp.lift(a)
        return _bto(GA(a.sp, a.shape, a.data), shape)

    def reshape(self, a, shape, **k):
        return self.sp.lift(a).reshape(shape)

    def copy(self, a):
        return self.sp.lift(a).copy()

    def concatenate(self, seq, axis=0, **k):
        def empty(a):
            if isinstance(a, _np.ndarray):
                return a.size == 0
            return isinstance(a, GA) and any((not _is_sym(d)) and int(d) == 0 for d in a.shape)
        parts = [a for a in seq if not empty(a)]
        if len(parts) == 1 and isinstance(parts[0], GA) and parts[0].ndim == 1:
            return parts[0].copy()
        if all(isinstance(a, _np.ndarray) for a in parts):
            return _np.concatenate(parts, axis=axis) if parts else _np.concatenate(list(seq), axis=axis)
        raise Unsupported("concatenation of several arrays of symbolic extent")

    def stack(self, seq, axis=0, **k):
        """arrays of one and the same (symbolic) shape joined along a NEW axis of concrete extent len(seq)"""
        parts = [self.sp.lift(a) for a in seq]
        if not parts:
            raise ValueError("need at least one array to stack")
        sh = parts[0].shape
        for a in parts[1:]:
            if len(a.shape) != len(sh) or any((x is not y) if (_is_sym(x) or _is_sym(y)) else (int(x) != int(y)) for x, y in zip(a.shape, sh)):
                raise ShapeError(f"all input arrays must have the same shape: {sh} and {a.shape}")
        nd = len(sh) + 1
        ax = axis + nd if axis < 0 else axis
        if not 0 <= ax < nd:
            raise ValueError(f"axis {axis} is out of bounds for array of dimension {nd}")
        data = _np.stack([a.data for a in parts], axis=ax)
        return GA(self.sp, sh[:ax] + (len(parts),) + sh[ax:], data)

    def ravel(self, a, **k):
        return self.sp.lift(a).ravel()

    def iscomplexobj(self, a):
        """the atoms of a generic array stand for real values (a complex field is two real ones): obligations decided here are statements about real data"""
        return False

    def isrealobj(self, a):
        return True

    def isscalar(self, a):
        return isinstance(a, (int, float, Fraction, X))


class _GLinalg:
    def __init__(self, np_):
        self.np_ = np_

    def __getattr__(self, k):
        raise Unsupported(f"np.linalg.{k} is not modelled for generic arrays")

    def norm(self, x, ord=None, axis=None, keepdims=False):
        if ord not in (None, 2):
            raise Unsupported(f"norm of order {ord}")
        x = self.np_.sp.lift(x)
        if axis is None:
            if x.ndim != 1:
                raise Unsupported("matrix / global norm of a generic array")
            axis = 0
        return self.np_.sqrt(_reduce_sum(x * x, axis, keepdims))


# ---------------------------------------------------------------------------------------------- comparison of results

def first_difference(got, want):
    """None when the two generic arrays are equal (same symbolic shape, every entry identical in the exact field)"""
    if not isinstance(got, GA):
        return f"the function returned {type(got).__name__}, not an array"
    if tuple(map(repr, got.shape)) != tuple(map(repr, want.shape)):
        return f"shape {got.shape}, expected {want.shape}"
    for idx in _np.ndindex(got.data.shape):
        a, b = got.data[idx], want.data[idx]
        if not (a == b):
            return f"entry {idx}: {a!r}  expected  {b!r}"
    return None


Space.fe_class = GFe
