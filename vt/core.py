"""Core of the contract checker: obligations, verdicts, parallel discharge, evidence,
known findings, VIOLATION / KNOWN-FINDING lines, replay files.

Exit codes (DESIGN.md 2.6): 0 all decided and held (or only listed known findings failed),
1 refuted obligation not listed, 2 undecided only, 3 checker self-check failed.
"""
from __future__ import annotations

import dataclasses
import hashlib
import json
import os
import signal
import sys
import time
import traceback
from concurrent.futures import ProcessPoolExecutor
import multiprocessing as mp
from typing import Any, Callable, Optional

VERIF = os.path.dirname(os.path.dirname(os.path.abspath(__file__)))
REPO = os.environ.get("VERIF_REPO", "/repo")

DISCHARGED, REFUTED, UNDECIDED, ERROR = "discharged", "refuted", "undecided", "error"


class Unsupported(Exception):
    """The real code left the subset the engine can execute -> undecided, never a violation."""


class Refuted(Exception):
    """Raised by a contract body to report a refuted clause with a counterexample."""

    def __init__(self, msg, cex=None, signature="", replay=None):
        super().__init__(msg)
        self.cex, self.signature, self.replay = cex, signature, replay


@dataclasses.dataclass
class Verdict:
    status: str
    detail: str = ""
    backend: str = ""
    cex: Any = None              # counterexample (json-able)
    signature: str = ""          # failing-input signature (for known findings)
    replay: Any = None           # native replay record {confirmed: bool, ...}
    solver_s: float = 0.0
    wall_s: float = 0.0
    sub: int = 1                 # number of elementary conditions decided inside


@dataclasses.dataclass
class Ob:
    id: str
    fn: Callable[..., Verdict]
    args: tuple = ()
    tier: str = "P"              # P proved / B bounded symbolic / E effect / L lemma / X bounded run-time
    funcs: tuple = ()            # functions under contract 'path::qualname'
    bound: str = ""              # stated bound for B / X tier
    expect: str = DISCHARGED     # canaries: REFUTED
    timeout: int = 120
    clause: str = ""             # human description of the clause


_OBS: list[Ob] = []


class _Timeout(Exception):
    pass


def _alarm(signum, frame):
    raise _Timeout()


def _run_one(i: int) -> tuple[int, Verdict]:
    ob = _OBS[i]
    t0 = time.time()
    signal.signal(signal.SIGALRM, _alarm)
    signal.alarm(int(ob.timeout))
    try:
        v = ob.fn(*ob.args)
        if v is None:
            v = Verdict(DISCHARGED)
        elif v is True:
            v = Verdict(DISCHARGED)
    except _Timeout:
        v = Verdict(UNDECIDED, f"timeout after {ob.timeout}s")
    except Unsupported as e:
        v = Verdict(UNDECIDED, f"unsupported: {e}")
    except Refuted as e:
        v = Verdict(REFUTED, str(e), cex=e.cex, signature=e.signature, replay=e.replay)
    except RecursionError as e:
        v = Verdict(UNDECIDED, f"recursion: {e}")
    except MemoryError:
        v = Verdict(UNDECIDED, "memory")
    except Exception as e:  # checker crash inside one obligation
        v = Verdict(ERROR, "".join(traceback.format_exception(type(e), e, e.__traceback__))[-3000:])
    finally:
        signal.alarm(0)
    v.wall_s = time.time() - t0
    return i, v


def _run_forked(obs, jobs):
    """One fresh forked child per obligation, forked from the (single-threaded) main thread; verdicts come back through
    temp files. No state leaks between obligations and no helper thread exists at fork time."""
    import pickle
    import shutil
    import tempfile
    order = sorted(range(len(obs)), key=lambda i: -obs[i].timeout)
    pending = list(order)
    running: dict[int, tuple[int, str, float]] = {}
    results: dict[int, Verdict] = {}
    tmpdir = tempfile.mkdtemp(prefix="vt_")
    T0 = time.time()
    sys.stdout.flush()
    sys.stderr.flush()
    try:
        while pending or running:
            while pending and len(running) < jobs:
                i = pending.pop(0)
                path = os.path.join(tmpdir, f"{i}.pkl")
                pid = os.fork()
                if pid == 0:
                    code = 0
                    try:
                        # what the code under test prints (progress bars, colour codes without newline) goes to stderr: stdout carries the verdict lines only
                        sys.stdout.flush()
                        os.dup2(2, 1)
                        _, v = _run_one(i)
                        v.cex, v.replay = jsonable(v.cex), jsonable(v.replay)
                        with open(path + ".tmp", "wb") as f:
                            pickle.dump(v, f)
                        os.replace(path + ".tmp", path)
                    except BaseException:
                        code = 1
                    finally:
                        os._exit(code)
                running[pid] = (i, path, time.time())
            done_any = False
            for pid in list(running):
                i, path, t0 = running[pid]
                try:
                    rp, status = os.waitpid(pid, os.WNOHANG)
                except ChildProcessError:
                    rp, status = pid, 0
                if rp == 0:
                    if time.time() - t0 > obs[i].timeout + 60:
                        try:
                            os.kill(pid, signal.SIGKILL)
                        except ProcessLookupError:
                            pass
                    continue
                done_any = True
                del running[pid]
                if os.path.exists(path):
                    try:
                        with open(path, "rb") as f:
                            results[i] = pickle.load(f)
                    except Exception as e:
                        results[i] = Verdict(ERROR, f"could not read verdict: {e!r}")
                elif os.WIFSIGNALED(status):
                    results[i] = Verdict(UNDECIDED, f"worker killed by signal {os.WTERMSIG(status)} (timeout or memory)")
                else:
                    results[i] = Verdict(ERROR, f"worker exited with status {status} without a verdict")
                results[i].wall_s = results[i].wall_s or (time.time() - t0)
                if os.environ.get("VERIF_VERBOSE"):
                    print(f"[{time.time()-T0:7.1f}s] {obs[i].id} {results[i].status} {results[i].wall_s:.1f}s", file=sys.stderr, flush=True)
            if not done_any:
                time.sleep(0.02)
    finally:
        shutil.rmtree(tmpdir, ignore_errors=True)
    return results


def jsonable(x):
    try:
        json.dumps(x)
        return x
    except Exception:
        if isinstance(x, dict):
            return {str(k): jsonable(v) for k, v in x.items()}
        if isinstance(x, (list, tuple, set)):
            return [jsonable(v) for v in x]
        return str(x)


def load_known(prop: str):
    p = os.path.join(VERIF, "known_findings.json")
    if not os.path.exists(p):
        return []
    with open(p) as f:
        data = json.load(f)
    return [k for k in data.get("findings", []) if k["property"] == prop and k.get("status", "open") == "open"]


def match_known(known, ob: Ob, v: Verdict):
    for k in known:
        if k["obligation"] != ob.id:
            continue
        sig = k.get("signature", "")
        if sig == "" or sig == v.signature or (k.get("signature_prefix") and v.signature.startswith(sig)):
            return k
    return None


def run_property(prop: str, obs: list[Ob], *, tier: str, seed: int, level: str,
                 explanation: str, trusted_base: list[str], assumptions: list[str],
                 functions: dict, dropped: list[str] | None = None, min_obligations: int = 1,
                 not_attempted: list[str] | None = None, jobs: int | None = None,
                 extra: dict | None = None, write_evidence: bool = True) -> int:
    """Discharge all obligations, write evidence, print verdict lines, return exit code."""
    global _OBS
    t0 = time.time()
    _OBS = obs
    jobs = jobs or int(os.environ.get("VERIF_JOBS", "16"))
    results: dict[int, Verdict] = {}
    if jobs <= 1 or len(obs) <= 1:
        for i in range(len(obs)):
            results[i] = _run_one(i)[1]
    else:
        results = _run_forked(obs, jobs)

    known = load_known(prop)
    real = [i for i, o in enumerate(obs) if o.expect == DISCHARGED]
    canaries = [i for i, o in enumerate(obs) if o.expect == REFUTED]

    lines: list[str] = []
    code = 0
    selfcheck_fail = []
    for i in canaries:
        if results[i].status != REFUTED:
            selfcheck_fail.append(f"canary {obs[i].id} was not refuted ({results[i].status}: {results[i].detail[-900:]})")
    errors = [i for i in real if results[i].status == ERROR]
    for i in errors:
        selfcheck_fail.append(f"checker error in {obs[i].id}: {results[i].detail[-800:]}")
    if len(real) < min_obligations:
        selfcheck_fail.append(f"only {len(real)} obligations generated, contract module expects >= {min_obligations}")

    violations = []
    known_hits = []
    undecided = []
    os.makedirs(os.path.join(VERIF, "replay"), exist_ok=True)
    for old in (os.listdir(os.path.join(VERIF, "replay")) if write_evidence else []):       # replay files of earlier runs of this property are stale (kept in --replay mode)
        if old.startswith(prop + ".") and old.endswith(".json"):
            try:
                os.remove(os.path.join(VERIF, "replay", old))
            except OSError:
                pass
    for i in real:
        o, v = obs[i], results[i]
        if v.status == REFUTED:
            k = match_known(known, o, v)
            if k is not None:
                known_hits.append((o, v, k))
                lines.append(f"KNOWN-FINDING: property={prop} {o.id} [{v.signature}] {k.get('what','')}")
                continue
            rp = os.path.join("replay", f"{o.id.replace('/', '_')}.json")
            rec = dict(property=prop, obligation=o.id, clause=o.clause, tier=o.tier, functions=list(o.funcs),
                       bound=o.bound, backend=v.backend, verifier_output=v.detail, counterexample=jsonable(v.cex),
                       signature=v.signature, native_replay=jsonable(v.replay), seed=seed,
                       how_to_replay=f"./check {prop} --replay {rp}")
            with open(os.path.join(VERIF, rp), "w") as f:
                json.dump(rec, f, indent=1)
            confirmed = bool(v.replay and isinstance(v.replay, dict) and v.replay.get("confirmed"))
            suffix = "" if confirmed else " no-failing-input-found"
            violations.append((o, v))
            lines.append(f"VIOLATION property={prop} replay={rp} obligation={o.id}{suffix}")
        elif v.status == UNDECIDED:
            undecided.append((o, v))
            lines.append(f"UNDECIDED property={prop} obligation={o.id} reason={v.detail[:300]}")

    if selfcheck_fail:
        code = 3
    elif violations:
        code = 1
    elif undecided:
        code = 2

    n_dis = sum(1 for i in real if results[i].status == DISCHARGED)
    by_tier: dict[str, dict[str, int]] = {}
    by_backend: dict[str, int] = {}
    solver_s = 0.0
    sub = 0
    for i in real:
        o, v = obs[i], results[i]
        d = by_tier.setdefault(o.tier, dict(obligations=0, discharged=0, refuted=0, undecided=0))
        d["obligations"] += 1
        if v.status in d:
            d[v.status] += 1
        by_backend[v.backend or "?"] = by_backend.get(v.backend or "?", 0) + 1
        solver_s += v.solver_s
        sub += v.sub
    samples = []
    for i in real[: 6]:
        o, v = obs[i], results[i]
        samples.append(dict(obligation=o.id, tier=o.tier, clause=o.clause, functions=list(o.funcs), status=v.status,
                            backend=v.backend, bound=o.bound, detail=v.detail[:300], wall_s=round(v.wall_s, 3)))
    tiers_legend = {"P": "proved for all inputs/sizes from the extracted source (counted as proof)",
                    "L": "mathematical lemma discharged by solver",
                    "E": "effect/frame contract decided on the AST for all call histories",
                    "B": "bounded symbolic: real code executed on exact symbolic values at stated shapes (NOT counted as proved)",
                    "X": "bounded run-time contract check on concrete inputs (NOT counted as proved)"}
    proved = sum(by_tier.get(t, {}).get("discharged", 0) for t in ("P", "L", "E"))
    bounded = sum(by_tier.get(t, {}).get("discharged", 0) for t in ("B", "X"))
    coverage = dict(
        obligations=len(real) - len(known_hits), discharged=n_dis, obligations_generated=len(real),
        proved_obligations=proved, bounded_obligations=bounded,
        elementary_conditions=sub,
        refuted_known_findings=len(known_hits), refuted_unlisted=len(violations), undecided=len(undecided),
        canaries=len(canaries), canaries_refuted=sum(1 for i in canaries if results[i].status == REFUTED),
        by_tier=by_tier, tiers_legend=tiers_legend, by_backend=by_backend, solver_s=round(solver_s, 3),
        checker_cmd=f"./check {prop} --tier {tier}",
        trusted_base=trusted_base,
        functions_under_contract=functions,
        extraction_drops=dropped or [],
        explanation=explanation,
        samples=samples,
        evaluations=len(real), distinct_nontrivial=len({obs[i].id for i in real}),
        rule="one evaluation = one named obligation generated from the current /repo source and decided; distinct by obligation id",
        known_findings=[dict(obligation=o.id, signature=v.signature, what=k.get("what", "")) for o, v, k in known_hits],
        not_attempted=not_attempted or [],
        obligation_list=[dict(id=obs[i].id, tier=obs[i].tier, status=results[i].status, backend=results[i].backend,
                              wall_s=round(results[i].wall_s, 3), bound=obs[i].bound) for i in real],
    )
    if extra:
        coverage.update(extra)
    ev = dict(property_id=prop, tier=tier, seed=seed, level=level, coverage=coverage,
              assumptions=assumptions, wall_s=round(time.time() - t0, 3), violations=len(violations),
              exit_code=code, selfcheck_failures=selfcheck_fail)
    os.makedirs(os.path.join(VERIF, "evidence"), exist_ok=True)
    with open(os.path.join(VERIF, "evidence", f"{prop}.json") if write_evidence else os.devnull, "w") as f:
        json.dump(jsonable(ev), f, indent=1)

    # the code under test may leave an unterminated line (colour codes) on stderr: when both streams are captured together the verdict lines
    # must still start at the beginning of a line
    sys.stderr.write("\n")
    sys.stderr.flush()
    sys.stdout.flush()
    for l in lines:
        print(l)
    for s in selfcheck_fail:
        print(f"SELFCHECK-FAILED property={prop} {s}")
    print(f"{prop}: tier={tier} obligations={len(real)} discharged={n_dis} (proved={proved} bounded={bounded}) "
          f"known-findings={len(known_hits)} violations={len(violations)} undecided={len(undecided)} "
          f"canaries={coverage['canaries_refuted']}/{len(canaries)} wall={time.time()-t0:.1f}s exit={code}")
    sys.stdout.flush()
    return code


def sha(s: str) -> str:
    return hashlib.sha256(s.encode()).hexdigest()[:16]
