"""E-tier: effect contracts decided on the AST, path by path.

`paths(fn_node)` enumerates the normal-exit paths of a function (if/else split, loops taken 0 or 1
times, comprehensions likewise, `return` ends a path, paths ending in `raise` are exceptional and dropped);
each path is the ordered list of its *events*:
    ("store", "self._Cls__x")            attribute store through self (private names mangled)
    ("store", "<recv>.attr")             attribute store through another receiver (variable name kept)
    ("augstore"/"itemstore", ...)        in-place update  x.attr += .. / x.attr[..] = ..
    ("call", "self.meth", nargs)         method call through self
    ("call", "<recv>.meth", nargs)       method call through another receiver
    ("call", "func", args_src)           free-function call (args as source text)
A rule says: on every path that contains an event matching `when`, an event matching `require` occurs
(anywhere on the path -- ordering is not needed for idempotent invalidation / notification).
Induction over operations then lifts the per-method guarantee to all call histories.
Limits (stated in the evidence): no aliasing analysis, no reflection (setattr/__dict__), calls through
variables are matched by name only; exceptions thrown by callees are not modelled.
"""
from __future__ import annotations

import ast
import dataclasses

from . import extract
from .core import Unsupported

MAX_PATHS = 20000


def _mangle(attr: str, owner: str | None) -> str:
    if owner and attr.startswith("__") and not attr.endswith("__"):
        return f"_{owner.lstrip('_')}{attr}"
    return attr


def _recv(node, owner):
    """textual receiver of an attribute chain: self.a.b -> 'self.a.b' (mangled)."""
    if isinstance(node, ast.Name):
        return node.id
    if isinstance(node, ast.Attribute):
        return f"{_recv(node.value, owner)}.{_mangle(node.attr, owner)}"
    if isinstance(node, ast.Subscript):
        return f"{_recv(node.value, owner)}[]"
    if isinstance(node, ast.Call):
        return f"{_recv(node.func, owner)}()"
    return "<expr>"


class _Ev(ast.NodeVisitor):
    """events of one expression / simple statement, in source order (approximately evaluation order)."""

    def __init__(self, owner):
        self.owner = owner
        self.ev = []

    def visit_Call(self, node):
        for a in node.args:
            self.visit(a)
        for k in node.keywords:
            self.visit(k.value)
        f = node.func
        if isinstance(f, ast.Attribute):
            self.visit(f.value)
            self.ev.append(("call", f"{_recv(f.value, self.owner)}.{_mangle(f.attr, self.owner)}", ",".join(ast.unparse(a) for a in node.args)))
        elif isinstance(f, ast.Name):
            self.ev.append(("call", f.id, ",".join(ast.unparse(a) for a in node.args)))
        else:
            self.visit(f)
            self.ev.append(("call", "<expr>", ""))

    def visit_Lambda(self, node):
        return  # body runs later, if at all

    def _comp(self, node):
        # comprehension = loop: elements may run 0..n times -> handled by the path splitter through marker events
        sub = _Ev(self.owner)
        for g in node.generators:
            self.visit(g.iter)
        if isinstance(node, ast.DictComp):
            sub.visit(node.key)
            sub.visit(node.value)
        else:
            sub.visit(node.elt)
        for g in node.generators:
            for c in g.ifs:
                sub.visit(c)
        if sub.ev:
            self.ev.append(("maybe", tuple(sub.ev)))

    visit_ListComp = visit_SetComp = visit_GeneratorExp = visit_DictComp = _comp


def _target_events(t, owner, kind="store"):
    out = []
    if isinstance(t, (ast.Tuple, ast.List)):
        for e in t.elts:
            out += _target_events(e, owner, kind)
    elif isinstance(t, ast.Attribute):
        out.append((kind, f"{_recv(t.value, owner)}.{_mangle(t.attr, owner)}"))
    elif isinstance(t, ast.Subscript):
        base = t.value
        if isinstance(base, ast.Attribute):
            out.append(("itemstore", f"{_recv(base.value, owner)}.{_mangle(base.attr, owner)}"))
        elif isinstance(base, ast.Name):
            out.append(("itemstore", base.id))
        elif isinstance(base, ast.Subscript):
            out += _target_events(base, owner, "itemstore")
    elif isinstance(t, ast.Starred):
        out += _target_events(t.value, owner, kind)
    return out


def _expr_events(node, owner):
    v = _Ev(owner)
    v.visit(node)
    return v.ev


def _expand_maybe(events):
    """('maybe', evs) -> two variants (skipped / once)."""
    variants = [[]]
    for e in events:
        if e[0] == "maybe":
            new = []
            for v in variants:
                new.append(v)
                new.append(v + list(e[1]))
            variants = new
        else:
            variants = [v + [e] for v in variants]
    return variants


def _seq(stmts, owner):
    """list of (events, status) for a statement list; status in 'fall', 'return', 'raise', 'break', 'continue'."""
    results = [([], "fall")]
    for s in stmts:
        nxt = []
        cont = [(ev, st) for ev, st in results if st == "fall"]
        done = [(ev, st) for ev, st in results if st != "fall"]
        if not cont:
            break
        sp = _stmt(s, owner)
        for ev, _ in cont:
            for ev2, st2 in sp:
                nxt.append((ev + ev2, st2))
                if len(nxt) + len(done) > MAX_PATHS:
                    raise Unsupported("too many paths")
        results = done + nxt
    return results


def _stmt(s, owner):
    E = lambda n: _expr_events(n, owner)
    if isinstance(s, ast.Expr):
        if isinstance(s.value, ast.Constant):
            return [([], "fall")]
        return [(v, "fall") for v in _expand_maybe(E(s.value))]
    if isinstance(s, ast.Assign):
        ev = E(s.value)
        for t in s.targets:
            ev = ev + _target_events(t, owner)
        return [(v, "fall") for v in _expand_maybe(ev)]
    if isinstance(s, ast.AnnAssign):
        if s.value is None:
            return [([], "fall")]
        return [(v, "fall") for v in _expand_maybe(E(s.value) + _target_events(s.target, owner))]
    if isinstance(s, ast.AugAssign):
        return [(v, "fall") for v in _expand_maybe(E(s.value) + _target_events(s.target, owner, "augstore"))]
    if isinstance(s, ast.Return):
        ev = E(s.value) if s.value is not None else []
        return [(v, "return") for v in _expand_maybe(ev)]
    if isinstance(s, ast.Raise):
        return [([], "raise")]
    if isinstance(s, ast.Assert):
        return [(v, "fall") for v in _expand_maybe(E(s.test))]
    if isinstance(s, (ast.Pass, ast.Import, ast.ImportFrom, ast.Global, ast.Nonlocal, ast.FunctionDef, ast.ClassDef, ast.Delete)):
        return [([], "fall")]
    if isinstance(s, ast.Break):
        return [([], "break")]
    if isinstance(s, ast.Continue):
        return [([], "continue")]
    if isinstance(s, ast.If):
        test = _expand_maybe(E(s.test))
        out = []
        tag_t = ("branch", ast.unparse(s.test), True)
        tag_f = ("branch", ast.unparse(s.test), False)
        for tv in test:
            for ev, st in _seq(s.body, owner):
                out.append((tv + [tag_t] + ev, st))
            for ev, st in (_seq(s.orelse, owner) if s.orelse else [([], "fall")]):
                out.append((tv + [tag_f] + ev, st))
        return out
    if isinstance(s, (ast.For, ast.While)):
        head = E(s.iter) if isinstance(s, ast.For) else E(s.test)
        out = []
        for hv in _expand_maybe(head):
            out.append((hv, "fall"))                                  # zero iterations
            for ev, st in _seq(s.body, owner):                         # one iteration
                if st in ("fall", "continue", "break"):
                    out.append((hv + ev, "fall"))
                else:
                    out.append((hv + ev, st))
        return out
    if isinstance(s, ast.With):
        head = []
        for it in s.items:
            head += E(it.context_expr)
        out = []
        for hv in _expand_maybe(head):
            for ev, st in _seq(s.body, owner):
                out.append((hv + ev, st))
        return out
    if isinstance(s, ast.Try):
        out = []
        fin = _seq(s.finalbody, owner) if s.finalbody else [([], "fall")]
        bodies = _seq(s.body + (s.orelse or []), owner)
        for h in s.handlers:
            bodies += _seq(h.body, owner)        # handler path (events of the partial body are not known -> dropped)
        for ev, st in bodies:
            for fev, fst in fin:
                out.append((ev + fev, st if fst == "fall" else fst))
        return out
    if isinstance(s, ast.Match):
        out = []
        for c in s.cases:
            out += _seq(c.body, owner)
        return out
    raise Unsupported(f"statement {type(s).__name__}")


def paths(fn: extract.Fn):
    """normal-exit paths (lists of events) of a function."""
    res = _seq(fn.node.body, fn.owner)
    return [ev for ev, st in res if st in ("fall", "return")]


def methods_of(path: str, cls: str):
    """[(name, which, Fn)] for every function of class `cls` (properties split into getter / setter)."""
    _, tree = extract.read(path)
    c = extract.find_class(tree, cls)
    if c is None:
        raise Unsupported(f"class {cls} not found in {path}")
    out = []
    src, _ = extract.read(path)
    import hashlib
    for n in c.body:
        if isinstance(n, ast.FunctionDef):
            decs = [ast.unparse(d) for d in n.decorator_list]
            which = "setter" if any(d.endswith(".setter") for d in decs) else ("getter" if "property" in decs else None)
            seg = ast.get_source_segment(src, n) or ""
            fn = extract.Fn(path, f"{cls}.{n.name}" + (f"[{which}]" if which else ""), n, cls, seg, n.lineno, n.end_lineno,
                            hashlib.sha256(seg.encode()).hexdigest())
            out.append((n.name, which, fn, decs))
    return out


def has(path_events, kind, pred):
    return any(e[0] == kind and pred(e) for e in path_events)
