"""Symbolic execution of extracted real functions: mock receivers, environment helpers.

A contract binds the free names of the real function (its `self`, its module globals) to
symbolic stand-ins: callee *contracts* (a stub returning a fresh abstract value constrained by
the callee's postcondition) or exact values.  Any attribute or global the contract did not
provide raises `Unsupported` (-> undecided), never a silent default.
"""
from __future__ import annotations

import importlib
from fractions import Fraction

from .core import Unsupported
from . import alg, extract


class MockMissing(Unsupported, AttributeError):
    """a receiver attribute the contract does not provide: undecided when it propagates; an AttributeError for code that probes with hasattr / try-except
    (the attribute IS absent on the receiver)."""


class Mock:
    """Receiver object whose attributes are exactly those given by the contract."""

    def __init__(self, _name="self", **attrs):
        object.__setattr__(self, "_Mock__name", _name)
        object.__setattr__(self, "_Mock__log", [])
        for k, v in attrs.items():
            object.__setattr__(self, k, v)

    def __getattr__(self, name):
        if name.startswith("__") and name.endswith("__"):
            raise AttributeError(name)
        raise MockMissing(f"{object.__getattribute__(self, '_Mock__name')}.{name} is not provided by the contract")

    def __setattr__(self, name, value):
        object.__getattribute__(self, "_Mock__log").append((name, value))
        object.__setattr__(self, name, value)

    def _writes(self):
        return list(object.__getattribute__(self, "_Mock__log"))


class NoOpTic:
    def __init__(self, *a, **k):
        pass

    def Tac(self, *a, **k):
        return 0.0


def module_globals(modname: str, **override) -> dict:
    """Namespace of the real module (current working tree) with overrides; exact-arithmetic hooks added."""
    m = importlib.import_module(modname)
    g = dict(vars(m))
    g["__vt_div__"] = alg.vt_div
    g["__vt_pow__"] = alg.vt_pow
    g["__vt_lit__"] = extract.lit
    g["Tic"] = NoOpTic
    g.update(override)
    return g


def float_globals(modname: str, **override) -> dict:
    m = importlib.import_module(modname)
    g = dict(vars(m))
    g.update(override)
    return g
