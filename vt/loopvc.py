"""Loop contracts for fill nests: verification conditions from the AST, discharged by z3 for ALL loop bounds.

Accepted shape of the function body (anything else -> Unsupported, i.e. undecided):

    n1 = <input>.shape[i] ...                 extents read from the inputs
    A = np.zeros((s1, ..., sk))                the array to fill (k = depth of the nest)
    for v1 in range(b1):                       or `for v, x in enumerate(seq)` (x stands for seq[v], bound len(seq) = seq.shape[0])
      for v2 in ...:
        ...
          A[i1, ..., ik] = rhs                 ONE statement in the innermost body, indices = the loop variables in some order
    return A

Contract: `A[i(w)] == spec(w)` for every w within the bounds, where spec is a Python expression over the inputs and the loop variables
given by the caller.  The inductive invariant is not supplied by hand: for a fill nest it is always
    Inv(v) :=  forall w within bounds:  w <lex v  ==>  A[i(w)] == Val(w)
with v = (v1, ..., vk) the position of the nest (inner variables 0 at loop entry).  Generated conditions:
    bounds     every store index lies within the allocated shape                                  (safety)
    cover      each loop runs over the whole extent of the axis its variable indexes
    value      rhs == spec (terms over uninterpreted `subscript` / `call`; enumerate elements substituted)
    init       Inv(0, ..., 0)
    step       Inv(v) and v within bounds  ==>  Inv'(v1, ..., vk + 1) after the store
    exit_j     Inv(v1, ..., v_j = b_j, 0, ...)  ==>  Inv(v1, ..., v_{j-1} + 1, 0, ...)             (one per inner loop level)
    post       Inv(b1, 0, ..., 0)  ==>  forall w within bounds: A[i(w)] == Val(w)
Integers are mathematical (Python's are); `range`, `enumerate`, `np.zeros` and tuple indexing of an ndarray have their documented meaning; the
element functions are pure (uninterpreted).  Nothing is unrolled: the bounds are free non-negative integers.
"""
from __future__ import annotations

import ast
import time

import z3

from .core import Unsupported


class Nest:
    def __init__(self):
        self.extents = {}        # local name -> ("shape", input, axis)
        self.array = None
        self.shape = []          # extent keys of the allocated array
        self.loops = []          # (var, bound key, element name or None, sequence name or None)
        self.index = []          # loop variable names in store order
        self.rhs = None
        self.returned = None


def _shape_key(node, extents):
    """extent key of an expression: ('shape', input, axis)"""
    if isinstance(node, ast.Name) and node.id in extents:
        return extents[node.id]
    if (isinstance(node, ast.Subscript) and isinstance(node.value, ast.Attribute) and node.value.attr == "shape" and isinstance(node.value.value, ast.Name)
            and isinstance(node.slice, ast.Constant) and isinstance(node.slice.value, int)):
        return ("shape", node.value.value.id, node.slice.value)
    raise Unsupported(f"extent expression not understood: {ast.dump(node)[:80]}")


def parse(fn_node: ast.FunctionDef) -> Nest:
    nest = Nest()
    body = [s for s in fn_node.body if not (isinstance(s, ast.Expr) and isinstance(s.value, ast.Constant))]      # docstring
    i = 0
    while i < len(body) and isinstance(body[i], ast.Assign):
        st = body[i]
        if len(st.targets) != 1 or not isinstance(st.targets[0], ast.Name):
            raise Unsupported("assignment target")
        name, val = st.targets[0].id, st.value
        if isinstance(val, ast.Call) and isinstance(val.func, ast.Attribute) and val.func.attr == "zeros" and isinstance(val.args[0], ast.Tuple):
            if nest.array is not None:
                raise Unsupported("two arrays allocated")
            if val.keywords or len(val.args) != 1:
                # np.zeros(shape) is a float64 array: a stored Python float is kept as it is.  With a dtype (or any other argument) the store may convert the value
                raise Unsupported("the array is allocated with more than its shape (dtype=...): the store may convert the stored values")
            nest.array = name
            nest.shape = [_shape_key(e, nest.extents) for e in val.args[0].elts]
        else:
            nest.extents[name] = _shape_key(val, nest.extents)
        i += 1
    if nest.array is None or i >= len(body) or not isinstance(body[i], ast.For):
        raise Unsupported("no fill nest found")
    cur = body[i]
    rest = body[i + 1:]
    while True:
        if cur.orelse:
            raise Unsupported("for ... else")
        it = cur.iter
        if isinstance(it, ast.Call) and isinstance(it.func, ast.Name) and it.func.id == "range" and len(it.args) == 1 and isinstance(cur.target, ast.Name):
            nest.loops.append((cur.target.id, _shape_key(it.args[0], nest.extents), None, None))
        elif (isinstance(it, ast.Call) and isinstance(it.func, ast.Name) and it.func.id == "enumerate" and len(it.args) == 1 and isinstance(it.args[0], ast.Name)
              and isinstance(cur.target, ast.Tuple) and len(cur.target.elts) == 2 and all(isinstance(e, ast.Name) for e in cur.target.elts)):
            nest.loops.append((cur.target.elts[0].id, ("shape", it.args[0].id, 0), cur.target.elts[1].id, it.args[0].id))
        else:
            raise Unsupported("loop header not understood")
        inner = [s for s in cur.body if not (isinstance(s, ast.Expr) and isinstance(s.value, ast.Constant))]
        if len(inner) != 1:
            raise Unsupported(f"a loop body with {len(inner)} statements")
        if isinstance(inner[0], ast.For):
            cur = inner[0]
            continue
        st = inner[0]
        if not (isinstance(st, ast.Assign) and len(st.targets) == 1 and isinstance(st.targets[0], ast.Subscript) and isinstance(st.targets[0].value, ast.Name)
                and st.targets[0].value.id == nest.array):
            raise Unsupported("innermost statement is not a store into the allocated array")
        sl = st.targets[0].slice
        elts = sl.elts if isinstance(sl, ast.Tuple) else [sl]
        if not all(isinstance(e, ast.Name) for e in elts):
            raise Unsupported("store index is not a tuple of names")
        nest.index = [e.id for e in elts]
        nest.rhs = st.value
        break
    if len(rest) != 1 or not (isinstance(rest[0], ast.Return) and isinstance(rest[0].value, ast.Name)):
        raise Unsupported("statements after the nest other than `return <array>`")
    nest.returned = rest[0].value.id
    return nest


class _Terms:
    """Python expressions -> z3 terms over one uninterpreted sort: names are constants (loop variables: injected integers), `a[b]` -> sub(a, b), `a[b, c]` -> sub(sub(a, b), c)
    (the meaning of tuple indexing of an ndarray of objects), `f(*x)` -> call(f, x)."""

    def __init__(self):
        self.S = z3.DeclareSort("Obj")
        self.sub = z3.Function("sub", self.S, self.S, self.S)
        self.call = z3.Function("call", self.S, self.S, self.S)
        self.of_int = z3.Function("of_int", z3.IntSort(), self.S)
        self.names = {}

    def term(self, node, env):
        if isinstance(node, ast.Name):
            if node.id in env:
                return env[node.id]
            return self.names.setdefault(node.id, z3.Const(f"in_{node.id}", self.S))
        if isinstance(node, ast.Subscript):
            base = self.term(node.value, env)
            idx = node.slice.elts if isinstance(node.slice, ast.Tuple) else [node.slice]
            for e in idx:
                base = self.sub(base, self.term(e, env))
            return base
        if isinstance(node, ast.Call) and len(node.args) == 1 and isinstance(node.args[0], ast.Starred) and not node.keywords:
            return self.call(self.term(node.func, env), self.term(node.args[0].value, env))
        raise Unsupported(f"expression outside the term language: {ast.dump(node)[:80]}")


def verify_fill(fn_node: ast.FunctionDef, spec: str, result_shape: tuple, timeout_ms=20000):
    """-> (list of (name, status, seconds)), all must be 'proved'.  spec: expression for the entry written at loop position (loop variables by name);
    result_shape: the extents the contract promises, as ('shape', input, axis) keys."""
    nest = parse(fn_node)
    k = len(nest.loops)
    out = []
    if nest.returned != nest.array:
        return [("return", "refuted: the function does not return the filled array", 0.0)]
    if tuple(nest.shape) != tuple(result_shape):
        return [("shape", f"refuted: allocated shape {nest.shape}, contract {list(result_shape)}", 0.0)]
    if len(nest.shape) != k or sorted(nest.index) != sorted(v for v, *_ in nest.loops):
        return [("index", f"refuted: store index {nest.index} is not a permutation of the loop variables {[v for v, *_ in nest.loops]}", 0.0)]
    keys = sorted({key for _, key, *_ in nest.loops} | set(nest.shape), key=repr)
    B = {key: z3.Int("n_" + "_".join(map(str, key[1:]))) for key in keys}
    bound = [B[key] for _, key, *_ in nest.loops]
    pos_bounds = z3.And([b >= 0 for b in B.values()])
    lv = [z3.Int(f"v_{v}") for v, *_ in nest.loops]
    names = [v for v, *_ in nest.loops]
    perm = [names.index(nm) for nm in nest.index]              # store axis a holds loop variable perm[a]

    T = _Terms()

    def env_at(w):
        env = {nm: T.of_int(x) for nm, x in zip(names, w)}
        for (v, _, elem, seq), x in zip(nest.loops, w):
            if elem is not None:
                env[elem] = T.sub(T.term(ast.Name(id=seq), {}), T.of_int(x))
        return env
    spec_node = ast.parse(spec, mode="eval").body

    def solve(name, hyps, goal):
        s = z3.Solver()
        s.set("timeout", timeout_ms)
        s.add(pos_bounds)
        for h in hyps:
            s.add(h)
        s.add(z3.Not(goal))
        t = time.time()
        r = s.check()
        out.append((name, "proved" if r == z3.unsat else (f"refuted: {s.model()}" if r == z3.sat else "unknown"), time.time() - t))

    # safety: the store index is within the allocated shape
    within = z3.And([z3.And(x >= 0, x < b) for x, b in zip(lv, bound)])
    solve("bounds", [within], z3.And([z3.And(lv[perm[a]] >= 0, lv[perm[a]] < B[nest.shape[a]]) for a in range(k)]))
    # coverage: the loops run over the whole allocated extent of the axis they index
    solve("cover", [], z3.And([B[nest.shape[a]] == bound[perm[a]] for a in range(k)]))
    # value: what is stored at position v is the contract's expression
    solve("value", [within], T.term(nest.rhs, env_at(lv)) == T.term(spec_node, env_at(lv)))

    Val = z3.Function("Val", *([z3.IntSort()] * k), T.S)                 # the stored value at loop position w (pure in w: `value` above)
    A = z3.Function("A", *([z3.IntSort()] * k), T.S)                     # array before the store, indexed by store axes
    A2 = z3.Function("A2", *([z3.IntSort()] * k), T.S)                   # ... after the store
    w = [z3.Int(f"w_{v}") for v in names]

    def at(arr, pos):
        return arr(*[pos[perm[a]] for a in range(k)])

    def lex_lt(a, b):
        terms = []
        for j in range(k):
            terms.append(z3.And([a[i] == b[i] for i in range(j)] + [a[j] < b[j]]))
        return z3.Or(terms)
    w_in = z3.And([z3.And(x >= 0, x < b) for x, b in zip(w, bound)])

    def inv(arr, v):
        return z3.ForAll(w, z3.Implies(z3.And(w_in, lex_lt(w, v)), at(arr, w) == Val(*w)))
    zero = [z3.IntVal(0)] * k
    solve("init", [], inv(A, zero))
    idx = [z3.Int(f"i_{a}") for a in range(k)]
    store = z3.ForAll(idx, A2(*idx) == z3.If(z3.And([idx[a] == lv[perm[a]] for a in range(k)]), Val(*lv), A(*idx)))
    succ = lv[:-1] + [lv[-1] + 1]
    solve("step", [within, inv(A, lv), store], inv(A2, succ))
    for j in range(k - 1, 0, -1):
        # level j (0-based) runs out: v_j == b_j, inner variables 0  ->  outer variable + 1, v_j and the inner ones 0
        pre = lv[:j] + [bound[j]] + zero[j + 1:]
        nxt = lv[:j - 1] + [lv[j - 1] + 1] + zero[j:]
        outer_in = z3.And([z3.And(lv[i] >= 0, lv[i] < bound[i]) for i in range(j)])
        solve(f"exit_{names[j]}", [outer_in, inv(A, pre)], inv(A, nxt))
    solve("post", [inv(A, [bound[0]] + zero[1:])], z3.ForAll(w, z3.Implies(w_in, at(A, w) == Val(*w))))
    return out
