"""Mechanical extraction of real functions from /repo, re-read from the files at every run.

`get(path, qualname)` parses the file with `ast`, finds the (possibly nested in a class)
function and returns a `Fn` record (node, source segment, line span, sha256).

`compile_fn(fn, globals, exact=True)` compiles the *same AST* into a callable that runs in the
given globals (the checker supplies symbolic stand-ins for `np`, `sparse`, `self`, ...).

What the extraction drops / rewrites (the complete list; reported in every evidence file):
  D1 decorators are removed (the function body is executed directly, without caches/wrappers);
  D2 parameter / return / variable annotations are removed (they name types that need not
     exist in the checker's environment); the annotated assignment `x: T = v` becomes `x = v`;
  D3 the docstring is removed;
  D4 with exact=True: every float literal is replaced by the exact decimal rational it
     spells (`0.5` -> 1/2, `0.774596669241483` -> 774596669241483/10**15) and every true
     division `a / b` by `__vt_div__(a, b)` (exact rational when both are Python ints, the
     operands' own `/` otherwise); `a ** b` by `__vt_pow__(a, b)` (so that `x ** 0.5`,
     `x ** (1/2)` become algebraic square roots). Nothing else in the body changes.
  D5 the function is compiled inside a class statement of the same name as its owner so that
     Python's private-name mangling (`self.__x` -> `self._Owner__x`) is the real one.
"""
from __future__ import annotations

import ast
import copy
import dataclasses
import hashlib
import os
from fractions import Fraction

from .core import REPO, Unsupported

_cache: dict[str, tuple[float, str, ast.Module]] = {}


def read(path: str):
    full = path if os.path.isabs(path) else os.path.join(REPO, path)
    st = os.stat(full).st_mtime
    if full in _cache and _cache[full][0] == st:
        return _cache[full][1], _cache[full][2]
    with open(full) as f:
        src = f.read()
    tree = ast.parse(src, filename=full)
    _cache[full] = (st, src, tree)
    return src, tree


@dataclasses.dataclass
class Fn:
    path: str
    qualname: str
    node: ast.AST
    owner: str | None
    source: str
    lineno: int
    end_lineno: int
    sha256: str

    @property
    def key(self):
        return f"{self.path}::{self.qualname}"

    def describe(self):
        return dict(file=self.path, function=self.qualname, lines=[self.lineno, self.end_lineno], sha256=self.sha256)


def find_class(tree, name) -> ast.ClassDef | None:
    for n in ast.walk(tree):
        if isinstance(n, ast.ClassDef) and n.name == name:
            return n
    return None


def _find(body, parts, which=None):
    name = parts[0]
    cands = [n for n in body if isinstance(n, (ast.FunctionDef, ast.ClassDef, ast.AsyncFunctionDef)) and n.name == name]
    if not cands:
        return None
    if len(parts) == 1:
        if which is not None:
            # property getter / setter selection by decorator
            for c in cands:
                decs = [ast.unparse(d) for d in getattr(c, "decorator_list", [])]
                if which == "getter" and any(d in ("property", "cached_property") for d in decs):
                    return c
                if which == "setter" and any(d.endswith(".setter") for d in decs):
                    return c
            return None
        return cands[0] if len(cands) == 1 else cands[0]
    for c in cands:
        r = _find(c.body, parts[1:], which)
        if r is not None:
            return r
    return None


def get(path: str, qualname: str, which: str | None = None) -> Fn:
    """qualname like 'Cls.method' or 'func' or 'Cls.method.nested'. which: 'getter'/'setter' for properties."""
    src, tree = read(path)
    parts = qualname.split(".")
    node = _find(tree.body, parts, which)
    if node is None:
        raise Unsupported(f"function {qualname} not found in {path}")
    seg = ast.get_source_segment(src, node) or ""
    owner = parts[-2] if len(parts) >= 2 and find_class(tree, parts[-2]) is not None else None
    if owner is not None and len(parts) >= 3:
        pass
    return Fn(path, qualname + (f"[{which}]" if which else ""), node, owner, seg, node.lineno, node.end_lineno,
              hashlib.sha256(seg.encode()).hexdigest())


def module_assign(path: str, name: str):
    """Returns the value node of a module-level `name = ...`."""
    src, tree = read(path)
    for n in tree.body:
        if isinstance(n, ast.Assign) and any(isinstance(t, ast.Name) and t.id == name for t in n.targets):
            return n.value
        if isinstance(n, ast.AnnAssign) and isinstance(n.target, ast.Name) and n.target.id == name:
            return n.value
    raise Unsupported(f"module-level {name} not found in {path}")


class _Strip(ast.NodeTransformer):
    def __init__(self, exact: bool):
        self.exact = exact

    def _strip_fn(self, node):
        node.decorator_list = []
        node.returns = None
        for a in node.args.posonlyargs + node.args.args + node.args.kwonlyargs:
            a.annotation = None
        if node.args.vararg:
            node.args.vararg.annotation = None
        if node.args.kwarg:
            node.args.kwarg.annotation = None
        if (node.body and isinstance(node.body[0], ast.Expr) and isinstance(node.body[0].value, ast.Constant)
                and isinstance(node.body[0].value.value, str)):
            node.body = node.body[1:] or [ast.Pass()]
        self.generic_visit(node)
        return node

    def visit_FunctionDef(self, node):
        return self._strip_fn(node)

    def visit_AnnAssign(self, node):
        self.generic_visit(node)
        if node.value is None:
            return ast.Pass()
        return ast.copy_location(ast.Assign(targets=[node.target], value=node.value), node)

    def visit_Constant(self, node):
        if self.exact and isinstance(node.value, float):
            src = getattr(node, "_src", None) or repr(node.value)
            return ast.copy_location(
                ast.Call(func=ast.Name(id="__vt_lit__", ctx=ast.Load()), args=[ast.Constant(value=src)], keywords=[]), node)
        return node

    def visit_BinOp(self, node):
        self.generic_visit(node)
        if self.exact and isinstance(node.op, ast.Div):
            return ast.copy_location(
                ast.Call(func=ast.Name(id="__vt_div__", ctx=ast.Load()), args=[node.left, node.right], keywords=[]), node)
        if self.exact and isinstance(node.op, ast.Pow):
            return ast.copy_location(
                ast.Call(func=ast.Name(id="__vt_pow__", ctx=ast.Load()), args=[node.left, node.right], keywords=[]), node)
        return node

    def visit_AugAssign(self, node):
        self.generic_visit(node)
        if self.exact and isinstance(node.op, (ast.Div, ast.Pow)):
            fn = "__vt_div__" if isinstance(node.op, ast.Div) else "__vt_pow__"
            load = copy.deepcopy(node.target)
            for n in ast.walk(load):
                if hasattr(n, "ctx"):
                    n.ctx = ast.Load()
            return ast.copy_location(ast.Assign(
                targets=[node.target],
                value=ast.Call(func=ast.Name(id=fn, ctx=ast.Load()), args=[load, node.value], keywords=[])), node)
        return node


def _annotate_float_sources(node: ast.AST, src_lines: list[str]):
    """Attach the literal spelling of each float constant (so 0.10 reads as 1/10 exactly as typed)."""
    for n in ast.walk(node):
        if isinstance(n, ast.Constant) and isinstance(n.value, float) and n.lineno == n.end_lineno:
            try:
                line = src_lines[n.lineno - 1]
                # col offsets are utf8 byte offsets
                b = line.encode()
                n._src = b[n.col_offset:n.end_col_offset].decode().replace("_", "")
            except Exception:
                pass


def lit(s: str) -> Fraction:
    s = s.strip().lower()
    try:
        return Fraction(s)
    except Exception:
        return Fraction(repr(float(s)))


# D1 drops decorators.  That is only sound for decorators that do not change what the call computes.  These are accepted:
#   property / x.setter / staticmethod / classmethod / abstractmethod / overload / wraps  -- binding only;
#   cache_computed_values -- memoisation; its transparency (no stale entry survives a change of what the method reads) is the obligation C14.I_cache.all;
#   singledispatch registration -- the contracts that extract such functions bind the dispatcher themselves.
# Any other decorator makes the extracted text differ from the code that runs: the obligation is reported undecided, never discharged.
TRANSPARENT_DECORATORS = ("property", "staticmethod", "classmethod", "abstractmethod", "overload", "cache_computed_values", "singledispatch", "lru_cache", "cache", "wraps")


def check_decorators(fn: "Fn"):
    node = fn.node
    if not isinstance(node, ast.FunctionDef):
        return
    for d in node.decorator_list:
        txt = ast.unparse(d)
        base = txt.split("(")[0].split(".")[-1]
        if base in TRANSPARENT_DECORATORS or txt.endswith(".setter") or txt.endswith(".getter") or txt.endswith(".register") or ".register(" in txt:
            continue
        raise Unsupported(f"{fn.key} carries the decorator @{txt}, which the extraction would drop: the extracted text is not the code that runs")


def compile_fn(fn: Fn, glob: dict, exact: bool = True):
    """Compile the extracted function (same AST, see module docstring for what is dropped)."""
    src, _ = read(fn.path)
    node = copy.deepcopy(fn.node)
    check_decorators(fn)
    _annotate_float_sources(node, src.splitlines())
    # deepcopy drops private attrs? (_src is kept by deepcopy since it's in __dict__)
    node = _Strip(exact).visit(node)
    if isinstance(node, ast.FunctionDef):
        name = node.name
        if fn.owner:
            cls = ast.ClassDef(name=fn.owner, bases=[], keywords=[], body=[node], decorator_list=[], type_params=[])
            mod = ast.Module(body=[cls], type_ignores=[])
        else:
            mod = ast.Module(body=[node], type_ignores=[])
        ast.fix_missing_locations(mod)
        code = compile(mod, filename=f"<extracted {fn.key}>", mode="exec")
        g = dict(glob)
        g.setdefault("__vt_lit__", lit)
        g.setdefault("__builtins__", __builtins__)
        exec(code, g)
        if fn.owner:
            d = g[fn.owner].__dict__
            out = d[name] if name in d else d[f"_{fn.owner.lstrip('_')}{name}"]     # private names are mangled in the class dict
            if fn.owner in glob:
                g[fn.owner] = glob[fn.owner]   # the real binding of the owner's name stays visible to the body
            return out
        return g[name]
    raise Unsupported(f"cannot compile node type {type(node).__name__}")


def compile_expr(node: ast.AST, glob: dict, path: str, exact: bool = True):
    src, _ = read(path)
    node = copy.deepcopy(node)
    _annotate_float_sources(node, src.splitlines())
    node = _Strip(exact).visit(node)
    e = ast.Expression(body=node)
    ast.fix_missing_locations(e)
    g = dict(glob)
    g.setdefault("__vt_lit__", lit)
    return eval(compile(e, f"<extracted expr {path}>", "eval"), g)


# ---------------------------------------------------------------- class re-assembly

_KEEP_DECORATORS = ("property", "staticmethod", "classmethod", "abstractmethod")


def _module_path_of(path: str, level: int, module: str | None) -> str:
    """Resolve a relative import seen in `path` to a repo-relative file or package path (without suffix)."""
    parts = path.split("/")[:-1]
    if level > 1:
        parts = parts[: len(parts) - (level - 1)]
    if module:
        parts += module.split(".")
    return "/".join(parts)


def import_map(path: str) -> dict:
    """name -> ('module', file) or ('name', file, original name) for relative imports of `path`."""
    _, tree = read(path)
    out = {}
    for n in tree.body:
        if isinstance(n, ast.ImportFrom) and n.level >= 1:
            base = _module_path_of(path, n.level, n.module)
            for a in n.names:
                nm = a.asname or a.name
                cand_mod = os.path.join(REPO, base, a.name + ".py")
                if os.path.exists(cand_mod):
                    out[nm] = ("module", f"{base}/{a.name}.py")
                elif os.path.exists(os.path.join(REPO, base + ".py")):
                    out[nm] = ("name", base + ".py", a.name)
                elif os.path.exists(os.path.join(REPO, base, "__init__.py")):
                    out[nm] = ("name", base + "/__init__.py", a.name)
    return out


_assembled: dict = {}
ASSEMBLED_LOG: dict = {}


def assemble_class(path: str, clsname: str, glob_for, exact: bool = True, skip=("__init__",)):
    """Re-assemble class `clsname` of `path` (and, recursively, its bases defined in /repo) from the
    extracted, transformed method ASTs.  `glob_for(path)` gives the globals for code of that file.
    Only decorators in _KEEP_DECORATORS (and `x.setter`) are kept.  `__init__` is skipped: instances are
    created with object.__new__ and the contract sets the private fields it needs."""
    key = (path, clsname, exact)
    if key in _assembled:
        return _assembled[key]
    src, tree = read(path)
    cls = find_class(tree, clsname)
    if cls is None:
        raise Unsupported(f"class {clsname} not found in {path}")
    imap = import_map(path)
    bases = []
    for b in cls.bases:
        bs = ast.unparse(b)
        if isinstance(b, ast.Name):
            if find_class(tree, b.id) is not None:
                bases.append(assemble_class(path, b.id, glob_for, exact, skip))
            elif b.id in imap and imap[b.id][0] == "name":
                bases.append(assemble_class(imap[b.id][1], imap[b.id][2], glob_for, exact, skip))
            elif b.id in ("ABC", "object"):
                continue
            else:
                raise Unsupported(f"base {bs} of {clsname} cannot be resolved")
        elif isinstance(b, ast.Attribute) and isinstance(b.value, ast.Name) and b.value.id in imap and imap[b.value.id][0] == "module":
            bases.append(assemble_class(imap[b.value.id][1], b.attr, glob_for, exact, skip))
        else:
            raise Unsupported(f"base {bs} of {clsname} cannot be resolved")
    body = []
    lines = src.splitlines()
    for n in cls.body:
        if isinstance(n, ast.FunctionDef) and n.name not in skip:
            m = copy.deepcopy(n)
            _annotate_float_sources(m, lines)
            decs = []
            for d in m.decorator_list:
                ds = ast.unparse(d)
                if ds in _KEEP_DECORATORS or ds.endswith(".setter"):
                    decs.append(d)
            m = _Strip(exact).visit(m)
            m.decorator_list = decs
            body.append(m)
        elif isinstance(n, (ast.Assign, ast.AnnAssign)) and getattr(n, "value", None) is not None:
            # class-level attribute (e.g. a parameter descriptor): kept, annotation dropped
            m = copy.deepcopy(n)
            _annotate_float_sources(m, lines)
            m = _Strip(exact).visit(m)
            body.append(m)
    if not body:
        body = [ast.Pass()]
    cdef = ast.ClassDef(name=clsname, bases=[ast.Name(id=f"__base{i}__", ctx=ast.Load()) for i in range(len(bases))],
                        keywords=[], body=body, decorator_list=[], type_params=[])
    mod = ast.Module(body=[cdef], type_ignores=[])
    ast.fix_missing_locations(mod)
    g = dict(glob_for(path))
    g.setdefault("__vt_lit__", lit)
    for i, b in enumerate(bases):
        g[f"__base{i}__"] = b
    exec(compile(mod, f"<assembled {path}::{clsname}>", "exec"), g)
    out = g[clsname]
    seg = ast.get_source_segment(src, cls) or ""
    ASSEMBLED_LOG[f"{path}::{clsname}"] = dict(file=path, cls=clsname, lines=[cls.lineno, cls.end_lineno],
                                               sha256=hashlib.sha256(seg.encode()).hexdigest())
    _assembled[key] = out
    return out


def compile_module_functions(path: str, glob: dict, names=None, exact: bool = True) -> dict:
    """Compile the module-level functions of `path` (all, or those in `names`) from their ASTs into one
    namespace (a copy of `glob`), so that they call each other's extracted versions."""
    src, tree = read(path)
    lines = src.splitlines()
    body = []
    for n in tree.body:
        if isinstance(n, ast.FunctionDef) and (names is None or n.name in names):
            m = copy.deepcopy(n)
            _annotate_float_sources(m, lines)
            m = _Strip(exact).visit(m)
            body.append(m)
    mod = ast.Module(body=body, type_ignores=[])
    ast.fix_missing_locations(mod)
    g = dict(glob)
    g.setdefault("__vt_lit__", lit)
    exec(compile(mod, f"<extracted functions of {path}>", "exec"), g)
    return g
