"""Symbolic-size integer arrays for index arithmetic (assembly).

LamArray(shape: tuple of z3 Int / int, elem: function(index tuple of z3 terms) -> z3 Int term).
A small trusted model of the numpy calls used by the index code: zeros, arange(start, stop, step),
array(), elementwise + * with ints, `a[:, cols] = v` with `cols` an arange (column-fancy
assignment), repeat(a, m) (flattening) / repeat(a, m, axis=0), reshape, ravel.
Flat (row-major) indexing is exact integer arithmetic; trailing dimensions must be concrete ints so
that flat indices stay linear in the symbolic leading size.
"""
from __future__ import annotations

import z3

from .core import Unsupported


def _int(v):
    return z3.IntVal(v) if isinstance(v, int) else v


class LamArray:
    def __init__(self, shape, elem, arange=None):
        self.shape = tuple(shape)
        self.elem = elem
        self.arange = arange      # (start, step, length) when this 1-D array is an arithmetic progression

    @property
    def ndim(self):
        return len(self.shape)

    def __getitem__(self, idx):
        if not isinstance(idx, tuple):
            idx = (idx,)
        if len(idx) == self.ndim and all(not isinstance(i, slice) for i in idx):
            return self.elem(tuple(_int(i) for i in idx))
        raise Unsupported("LamArray slicing read")

    def _ew(self, o, f):
        if isinstance(o, LamArray):
            if len(o.shape) != len(self.shape):
                raise Unsupported("LamArray broadcasting")
            return LamArray(self.shape, lambda ix: f(self.elem(ix), o.elem(ix)))
        if isinstance(o, (int, z3.ArithRef)):
            oo = _int(o)
            ar = None
            return LamArray(self.shape, lambda ix: f(self.elem(ix), oo))
        return NotImplemented

    def __add__(self, o): return self._ew(o, lambda a, b: a + b)
    def __radd__(self, o): return self._ew(o, lambda a, b: b + a)
    def __mul__(self, o): return self._ew(o, lambda a, b: a * b)
    def __rmul__(self, o): return self._ew(o, lambda a, b: b * a)
    def __sub__(self, o): return self._ew(o, lambda a, b: a - b)

    def __setitem__(self, idx, val):
        # supported: a[:, cols] = v  with cols an arange LamArray and v a LamArray of shape (shape[0], len(cols)) or scalar
        if (isinstance(idx, tuple) and len(idx) == 2 and isinstance(idx[0], slice) and idx[0] == slice(None)
                and isinstance(idx[1], LamArray) and idx[1].arange is not None and self.ndim == 2):
            start, step, length = idx[1].arange
            if not isinstance(step, int) or step <= 0:
                raise Unsupported("column assignment needs a concrete positive step")
            old = self.elem
            start, length = _int(start), _int(length)

            def new(ix, old=old, val=val):
                e, k = ix
                i = (k - start) / step          # z3 integer division
                hit = z3.And((k - start) % step == 0, i >= 0, i < length)
                v = val.elem((e, i)) if isinstance(val, LamArray) else _int(val)
                return z3.If(hit, v, old(ix))
            self.elem = new
            return
        raise Unsupported("LamArray assignment form")

    def ravel(self):
        return reshape(self, (-1,))

    def reshape(self, *shape):
        if len(shape) == 1 and isinstance(shape[0], (tuple, list)):
            shape = tuple(shape[0])
        return reshape(self, shape)

    def copy(self):
        return LamArray(self.shape, self.elem, self.arange)

    def astype(self, *a, **k):
        return self


def _strides(shape):
    """row-major strides; all dims except the first must be concrete ints."""
    st = []
    acc = 1
    for s in reversed(shape[1:]):
        if not isinstance(s, int):
            raise Unsupported("trailing dimensions must be concrete for flat indexing")
    for k in range(len(shape)):
        prod = 1
        for s in shape[k + 1:]:
            prod *= s
        st.append(prod)
    return st


def flat_index(shape, ix):
    st = _strides(shape)
    tot = 0
    for i, s in zip(ix, st):
        tot = tot + i * s
    return tot


def unflatten(shape, q):
    """index tuple of flat index q (trailing dims concrete)."""
    st = _strides(shape)
    out = []
    rem = q
    for k, s in enumerate(st):
        if k == 0:
            out.append(rem / s if s != 1 else rem)
        else:
            out.append((rem / s) % shape[k] if s != 1 else rem % shape[k])
    return tuple(out)


def size(shape):
    tot = 1
    for s in shape:
        tot = tot * s
    return tot


def reshape(a: LamArray, shape):
    shape = tuple(shape)
    if -1 in shape:
        if shape == (-1,):
            n = size(a.shape)
            return LamArray((n,), lambda ix: a.elem(unflatten(a.shape, ix[0])))
        raise Unsupported("reshape with -1")
    return LamArray(shape, lambda ix: a.elem(unflatten(a.shape, flat_index(shape, ix))))


class NPLam:
    """numpy model for the index code (integers are mathematical; dtypes are carried as names only)."""
    int64 = "int64"
    int32 = "int32"
    int_ = "int64"
    intp = "int64"

    def zeros(self, shape, dtype=None):
        return LamArray(tuple(shape), lambda ix: z3.IntVal(0))

    def arange(self, start, stop=None, step=1):
        if stop is None:
            start, stop = 0, start
        if not isinstance(step, int) or step <= 0:
            raise Unsupported("arange step must be a concrete positive int")
        # length = ceil((stop-start)/step)
        length = (stop - start + step - 1) / step if not (isinstance(stop, int) and isinstance(start, int)) else max(0, -(-(stop - start) // step))
        s = _int(start)
        return LamArray((length,), lambda ix: s + ix[0] * step, arange=(start, step, length))

    def array(self, a, *k, **kw):
        if isinstance(a, LamArray):
            return a.copy()
        raise Unsupported("np.array of a non-LamArray")

    asarray = array

    def repeat(self, a, m, axis=None):
        if not isinstance(m, int):
            raise Unsupported("repeat count must be concrete")
        if axis is None:
            fa = a.ravel()
            n = fa.shape[0]
            return LamArray((n * m,), lambda ix: fa.elem((ix[0] / m,)))
        if axis == 0:
            return LamArray((a.shape[0] * m,) + a.shape[1:], lambda ix: a.elem((ix[0] / m,) + tuple(ix[1:])))
        raise Unsupported("repeat axis")
