"""Exact algebra back end.

`Ctx`   a field QQ(x1..xn)[radicals]: fixed named symbols + lazily assigned radical generators
        (one per prime for square roots of rationals -- sqrt(2), sqrt(3), ... are linearly
        independent over QQ, so rewriting s_p**2 -> p is a canonical form; nested / symbolic
        radicals get their own generator with relation s**2 = k).
`X`     scalar: exact element of that field (+ optional witness value used to decide
        comparisons; every decided comparison is appended to the context's path condition).
`Lin`   formal linear combination  sum coef * (Mat (x) ... (x) vec)  with X coefficients
        (non-commutative products; what makes statements hold for matrices of any size).

Zero test = normal form: numerator reduced modulo the radical relations is the zero polynomial.
This is a decision procedure for identities in the field (no tolerance, no sampling).
"""
from __future__ import annotations

import math
from fractions import Fraction
from typing import Optional

from sympy import QQ, factorint
from sympy.polys.fields import FracField
from sympy.polys.rings import PolyElement

from .core import Unsupported

try:
    import mpmath
    mpmath.mp.dps = 80
except Exception:  # pragma: no cover
    mpmath = None


def _isqrt_frac(q: Fraction) -> Optional[Fraction]:
    if q < 0:
        return None
    n, d = q.numerator, q.denominator
    rn, rd = math.isqrt(n), math.isqrt(d)
    if rn * rn == n and rd * rd == d:
        return Fraction(rn, rd)
    return None


class Ctx:
    current: "Ctx" = None  # type: ignore

    def __init__(self, names=(), nspare=10, witness: dict | None = None, assume_pos=()):
        self.names = list(names)
        self.spare = [f"_r{i}" for i in range(nspare)]
        self.F = FracField(self.names + self.spare, QQ)
        self.R = self.F.ring
        self.nvars = len(self.names)
        self.rel: dict[int, PolyElement] = {}        # generator index -> k (s**2 = k), k polynomial
        self.rel_desc: dict[int, str] = {}
        self.prime_gen: dict[int, int] = {}           # prime -> generator index
        self.rad_cache: dict = {}
        self.next_spare = 0
        self.witness = dict(witness) if witness else None
        self.rad_wit: dict[int, object] = {}
        self.pc: list[tuple[str, "X"]] = []           # path condition: (rel, expr) meaning expr rel 0
        self.div_nonzero: list["X"] = []               # denominators assumed non-zero (division side conditions)
        self.assume_pos = set(assume_pos)
        self.gens = {}
        for i, n in enumerate(self.names):
            w = None
            if self.witness is not None:
                w = Fraction(self.witness[n])
            self.gens[n] = X(self, self.F.gens[i], w)
        Ctx.current = self

    # -- construction
    def sym(self, name) -> "X":
        return self.gens[name]

    def const(self, q) -> "X":
        if isinstance(q, X):
            return q
        if isinstance(q, bool):
            q = int(q)
        if isinstance(q, int):
            return X(self, self.F(q), Fraction(q))
        if isinstance(q, Fraction):
            return X(self, self.F.ground_new(QQ(int(q.numerator), int(q.denominator))), Fraction(int(q.numerator), int(q.denominator)))
        if isinstance(q, float):
            if q == int(q) and abs(q) < 2**53:
                return self.const(int(q))
            if getattr(self, "floats", "refuse") == "exact":
                return self.const(Fraction(q))
            raise Unsupported(f"float {q!r} leaked into exact arithmetic")
        try:
            import numpy as np
            if isinstance(q, np.integer):
                return self.const(int(q))
            if isinstance(q, np.floating):
                return self.const(float(q))
        except ImportError:
            pass
        raise Unsupported(f"cannot lift {type(q).__name__} to exact scalar")

    def _new_gen(self, k: PolyElement, desc: str, wit):
        if self.next_spare >= len(self.spare):
            raise Unsupported("out of radical generators")
        idx = self.nvars + self.next_spare
        self.next_spare += 1
        self.rel[idx] = k
        self.rel_desc[idx] = desc
        self.rad_wit[idx] = wit
        return idx

    def _prime_root(self, p: int) -> "X":
        if p not in self.prime_gen:
            w = mpmath.sqrt(p) if mpmath else math.sqrt(p)
            self.prime_gen[p] = self._new_gen(self.R(p), f"sqrt({p})", w)
        idx = self.prime_gen[p]
        return X(self, self.F.gens[idx], self.rad_wit[idx])

    def sqrt_rational(self, q: Fraction) -> "X":
        if q < 0:
            raise Unsupported(f"sqrt of negative rational {q}")
        if q == 0:
            return self.const(0)
        # sqrt(n/d) = sqrt(n*d)/d
        m = q.numerator * q.denominator
        out = 1
        res = self.const(Fraction(1, q.denominator))
        for p, e in factorint(m).items():
            out *= p ** (e // 2)
            if e % 2:
                res = res * self._prime_root(int(p))
        return res * out

    def sqrt(self, x: "X") -> "X":
        x = self.reduce(x)
        num, den = x.v.numer, x.v.denom
        if num == 0:
            return self.const(0)
        if num.is_ground and den.is_ground:
            q = Fraction(int(num.LC.numerator), int(num.LC.denominator)) / Fraction(int(den.LC.numerator), int(den.LC.denominator))
            return self.sqrt_rational(q)
        key = (num, den)
        if key in self.rad_cache:
            return self.rad_cache[key]
        # perfect square in the field?
        r = self._poly_sqrt(num)
        s = self._poly_sqrt(den)
        if r is not None and s is not None:
            root = X(self, self.F.new(r, s) if hasattr(self.F, "new") else self.F(r) / self.F(s), None)
            root = self._with_wit(root)
            # sign: sqrt >= 0 ; decided by the witness (recorded in the path condition)
            if root.w is None:
                raise Unsupported("sqrt of a symbolic perfect square needs a witness to fix the sign")
            if root.w < 0:
                self.pc.append(("<", root))
                root = -root
            else:
                self.pc.append((">=", root))
            self.rad_cache[key] = root
            return root
        if not den.is_ground:
            # sqrt(n/d) = sqrt(n*d)/|d| ; sign of d from the witness (recorded)
            dX = X(self, self.F(den), None)
            dX = self._with_wit(dX)
            if dX.w is None:
                raise Unsupported("sqrt of a non-square rational function with symbolic denominator needs a witness")
            inner = self.sqrt(X(self, self.F(num * den), None if x.w is None else x.w * dX.w * dX.w))
            if dX.w > 0:
                self.pc.append((">", dX))
                root = inner / dX
            else:
                self.pc.append(("<", dX))
                root = inner / (-dX)
            self.rad_cache[key] = root
            return root
        # new radical generator s with s**2 = k (k polynomial with rational coefficients)
        k = num.quo_ground(den.LC) if hasattr(num, "quo_ground") else num * (1 / den.LC)
        wit = None
        if x.w is not None:
            if x.w < 0:
                raise Unsupported("sqrt of an expression negative at the witness")
            wit = mpmath.sqrt(_mp(x.w))
        idx = self._new_gen(k, f"sqrt({k})", wit)
        root = X(self, self.F.gens[idx], wit)
        self.rad_cache[key] = root
        return root

    def _poly_sqrt(self, p: PolyElement):
        if p.is_ground:
            c = p.LC
            r = _isqrt_frac(Fraction(int(c.numerator), int(c.denominator)))
            return None if r is None else self.R(QQ(r.numerator, r.denominator))
        try:
            c, factors = p.factor_list()
        except Exception:
            return None
        r = _isqrt_frac(Fraction(int(c.numerator), int(c.denominator)))
        if r is None:
            return None
        out = self.R(QQ(r.numerator, r.denominator))
        for f, e in factors:
            if e % 2:
                return None
            out = out * f ** (e // 2)
        return out

    def _with_wit(self, x: "X") -> "X":
        if self.witness is None:
            return x
        x.w = self.eval_at_witness(x)
        return x

    def eval_at_witness(self, x: "X"):
        vals = []
        exact = True
        for i, n in enumerate(self.names):
            vals.append(Fraction(self.witness[n]))
        for j in range(len(self.spare)):
            idx = self.nvars + j
            if idx in self.rad_wit and self.rad_wit[idx] is not None:
                vals.append(self.rad_wit[idx])
                exact = False if not isinstance(self.rad_wit[idx], Fraction) else exact
            else:
                vals.append(Fraction(0))

        def ev(p):
            tot = 0
            for mon, c in p.terms():
                t = Fraction(int(c.numerator), int(c.denominator))
                for e, v in zip(mon, vals):
                    if e:
                        t = (_mp(t) if not isinstance(v, Fraction) else t) * v ** e
                tot = _add(tot, t)
            return tot
        n, d = ev(x.v.numer), ev(x.v.denom)
        return _div(n, d)

    # -- normal form
    def reduce_poly(self, p: PolyElement) -> PolyElement:
        if not self.rel:
            return p
        for idx in sorted(self.rel, reverse=True):
            k = self.rel[idx]
            if all(m[idx] < 2 for m in p.itermonoms()) if hasattr(p, "itermonoms") else False:
                continue
            s = self.R.gens[idx]
            out = self.R.zero
            for mon, c in p.terms():
                e = mon[idx]
                if e < 2:
                    out += self.R({mon: c})
                else:
                    m2 = list(mon)
                    m2[idx] = e % 2
                    out += self.R({tuple(m2): c}) * k ** (e // 2)
            p = out
        return p

    def reduce(self, x: "X") -> "X":
        if not self.rel:
            return x
        n = self.reduce_poly(x.v.numer)
        d = self.reduce_poly(x.v.denom)
        if d == 0:
            raise Unsupported("denominator vanishes modulo radical relations")
        return X(self, self.F(n) / self.F(d), x.w)

    def iszero(self, x: "X") -> bool:
        n = x.v.numer
        if n == 0:
            return True
        if not self.rel:
            return False
        return self.reduce_poly(n) == 0

    def rationalize_ground(self, x: "X") -> "X":
        return x


def _mp(v):
    if isinstance(v, Fraction):
        return mpmath.mpf(v.numerator) / mpmath.mpf(v.denominator)
    return v


def _add(a, b):
    if isinstance(a, (int, Fraction)) and isinstance(b, (int, Fraction)):
        return a + b
    return _mp(Fraction(a) if isinstance(a, int) else a) + _mp(Fraction(b) if isinstance(b, int) else b)


def _div(a, b):
    if isinstance(a, (int, Fraction)) and isinstance(b, (int, Fraction)):
        return Fraction(a) / Fraction(b)
    return _mp(Fraction(a) if isinstance(a, int) else a) / _mp(Fraction(b) if isinstance(b, int) else b)


def _wop(op, a, b):
    if a is None or b is None:
        return None
    ea, eb = isinstance(a, (int, Fraction)), isinstance(b, (int, Fraction))
    if not (ea and eb):
        a = _mp(Fraction(a) if isinstance(a, int) else a)
        b = _mp(Fraction(b) if isinstance(b, int) else b)
    if op == "+":
        return a + b
    if op == "-":
        return a - b
    if op == "*":
        return a * b
    if op == "/":
        if b == 0:
            return None
        return Fraction(a) / b if ea and eb else a / b
    raise ValueError(op)


_SCALARS = (int, Fraction)


class X:
    """Exact scalar. Arithmetic with int / Fraction / X. Comparisons are decided by the witness
    (and recorded), or exactly when the value is a ground number."""
    __slots__ = ("c", "v", "w")
    pass

    def __init__(self, c: Ctx, v, w=None):
        self.c, self.v, self.w = c, v, w

    # lifting
    def _lift(self, o):
        if isinstance(o, X):
            return o
        if isinstance(o, _SCALARS) and not isinstance(o, bool):
            return self.c.const(o)
        if isinstance(o, bool):
            return self.c.const(int(o))
        if isinstance(o, float):
            return self.c.const(o)
        try:
            import numpy as np
            if isinstance(o, (np.integer, np.floating)):
                return self.c.const(o.item())
            if isinstance(o, np.ndarray) and o.ndim == 0 and o.dtype != object:
                return self.c.const(o.item())
        except ImportError:
            pass
        return None

    def _bin(self, o, op):
        o2 = self._lift(o)
        if o2 is None:
            return NotImplemented
        if op == "+":
            v = self.v + o2.v
        elif op == "-":
            v = self.v - o2.v
        elif op == "*":
            v = self.v * o2.v
        else:
            if self.c.iszero(o2):
                raise ZeroDivisionError("exact division by zero")
            if not (o2.v.numer.is_ground):
                self.c.div_nonzero.append(o2)
            v = self.v / o2.v
        return X(self.c, v, _wop(op, self.w, o2.w))

    def __add__(self, o): return self._bin(o, "+")
    def __sub__(self, o): return self._bin(o, "-")
    def __mul__(self, o): return self._bin(o, "*")
    def __truediv__(self, o): return self._bin(o, "/")
    def __radd__(self, o): return self._bin(o, "+")
    def __rmul__(self, o): return self._bin(o, "*")

    def __rsub__(self, o):
        o2 = self._lift(o)
        return NotImplemented if o2 is None else o2._bin(self, "-")

    def __rtruediv__(self, o):
        o2 = self._lift(o)
        return NotImplemented if o2 is None else o2._bin(self, "/")

    def __neg__(self):
        return X(self.c, -self.v, None if self.w is None else -self.w)

    def __pos__(self):
        return self

    def __pow__(self, e):
        if isinstance(e, X):
            g = e.ground()
            if g is None:
                raise Unsupported("symbolic exponent")
            e = g
        if isinstance(e, float):
            e = Fraction(e).limit_denominator(64)
        if isinstance(e, Fraction) and e.denominator == 1:
            e = int(e)
        if isinstance(e, Fraction):
            if e.denominator == 2:
                r = self.c.sqrt(self)
                return r ** e.numerator
            raise Unsupported(f"fractional power {e}")
        e = int(e)
        if e >= 0:
            return X(self.c, self.v ** e, None if self.w is None else self.w ** e)
        if self.c.iszero(self):
            raise ZeroDivisionError("0 ** negative")
        return X(self.c, self.v ** e, None if self.w is None else self.w ** e)

    def __rpow__(self, o):
        o2 = self._lift(o)
        if o2 is None:
            return NotImplemented
        return o2 ** self

    def __abs__(self):
        return -self if self < 0 else self

    def sqrt(self):
        return self.c.sqrt(self)

    def conjugate(self):
        return self

    conj = conjugate

    @property
    def real(self):
        return self

    @property
    def imag(self):
        return self.c.const(0)

    # exact value of a ground element (no free symbols, no radicals) or None
    def ground(self) -> Optional[Fraction]:
        x = self.c.reduce(self)
        n, d = x.v.numer, x.v.denom
        if n == 0:
            return Fraction(0)
        if n.is_ground and d.is_ground:
            return Fraction(int(n.LC.numerator), int(n.LC.denominator)) / Fraction(int(d.LC.numerator), int(d.LC.denominator))
        return None

    def is_ground_algebraic(self) -> bool:
        n, d = self.v.numer, self.v.denom
        nv = self.c.nvars
        for p in (n, d):
            for mon in p.itermonoms():
                if any(mon[:nv]):
                    return False
        return True

    def sign(self) -> int:
        d = self - 0
        if self.c.iszero(d):
            return 0
        g = d.ground()
        if g is not None:
            return 1 if g > 0 else -1
        if d.is_ground_algebraic():
            w = self.c.eval_at_witness(d) if self.c.witness is not None else _eval_ground(self.c, d)
            if abs(w) < mpmath.mpf(10) ** (-60):
                raise Unsupported("sign of algebraic number too close to zero")
            return 1 if w > 0 else -1
        if self.w is None:
            raise Unsupported("comparison of a symbolic value without witness")
        w = self.w
        if w == 0 or (not isinstance(w, Fraction) and abs(w) < mpmath.mpf(10) ** (-60)):
            raise Unsupported("witness lies on a branch boundary")
        return 1 if w > 0 else -1

    def _cmp(self, o, rel):
        o2 = self._lift(o)
        if o2 is None:
            return NotImplemented
        d = self - o2
        s = d.sign()
        if not d.is_ground_algebraic():
            self.c.pc.append(({1: ">", -1: "<", 0: "=="}[s], d))
        return {"<": s < 0, "<=": s <= 0, ">": s > 0, ">=": s >= 0}[rel]

    def __lt__(self, o): return self._cmp(o, "<")
    def __le__(self, o): return self._cmp(o, "<=")
    def __gt__(self, o): return self._cmp(o, ">")
    def __ge__(self, o): return self._cmp(o, ">=")

    def __eq__(self, o):
        o2 = self._lift(o)
        if o2 is None:
            return NotImplemented
        return self.c.iszero(self - o2)

    def __ne__(self, o):
        r = self.__eq__(o)
        return r if r is NotImplemented else not r

    def __hash__(self):
        return hash(self.v)

    def __bool__(self):
        return not self.c.iszero(self)

    def __float__(self):
        g = self.ground()
        if g is not None:
            return float(g)
        if self.is_ground_algebraic():
            return float(_eval_ground(self.c, self))
        if self.w is not None:
            return float(self.w)
        raise Unsupported("float() of a symbolic value")

    def __index__(self):
        g = self.ground()
        if g is not None and g.denominator == 1:
            return int(g)
        raise TypeError("not an integer")

    def __repr__(self):
        s = str(self.c.reduce(self).v)
        return s if len(s) < 400 else s[:400] + "..."

    def diff(self, name: str) -> "X":
        g = self.c.F.gens[self.c.names.index(name)]
        return X(self.c, self.v.diff(g), None)

    def coeff_abs_sum(self) -> Fraction:
        """sum of |coefficients| of a polynomial element (denominator must be a ground constant)."""
        n, d = self.v.numer, self.v.denom
        if not d.is_ground:
            raise Unsupported("coeff_abs_sum of a non-polynomial")
        dd = Fraction(int(d.LC.numerator), int(d.LC.denominator))
        return sum((abs(Fraction(int(c.numerator), int(c.denominator))) for _, c in n.terms()), Fraction(0)) / abs(dd)

    def subs_point(self, point: dict) -> Fraction:
        """Evaluate at a rational point (names -> Fraction); radicals not allowed."""
        F = self.c.F
        def ev(p):
            tot = Fraction(0)
            for mon, c in p.terms():
                t = Fraction(int(c.numerator), int(c.denominator))
                for e, n in zip(mon, self.c.names + self.c.spare):
                    if e:
                        t *= Fraction(point[n]) ** e
                tot += t
            return tot
        return ev(self.v.numer) / ev(self.v.denom)


def _eval_ground(c: Ctx, x: X):
    vals = [mpmath.mpf(0)] * c.nvars
    for j in range(len(c.spare)):
        idx = c.nvars + j
        if idx in c.rel:
            k = c.rel[idx]
            # k is ground-algebraic in earlier generators
            kv = _eval_poly(k, vals + [mpmath.mpf(0)] * (len(c.spare) - j))
            vals.append(mpmath.sqrt(kv))
        else:
            vals.append(mpmath.mpf(0))
    return _eval_poly(x.v.numer, vals) / _eval_poly(x.v.denom, vals)


def _eval_poly(p, vals):
    tot = mpmath.mpf(0)
    for mon, c in p.terms():
        t = mpmath.mpf(int(c.numerator)) / mpmath.mpf(int(c.denominator))
        for e, v in zip(mon, vals):
            if e:
                t *= v ** e
        tot += t
    return tot


def vt_div(a, b):
    if isinstance(a, int) and isinstance(b, int) and not isinstance(a, bool) and not isinstance(b, bool):
        return Fraction(a, b)
    return a / b


def vt_pow(a, b):
    if isinstance(b, float):
        b = Fraction(b).limit_denominator(64)
    if isinstance(b, Fraction) and b.denominator == 1:
        b = int(b)
    if isinstance(a, (int, Fraction)) and not isinstance(a, bool):
        if isinstance(b, int):
            return Fraction(a) ** b if b < 0 else a ** b
        if isinstance(b, Fraction) and b.denominator == 2:
            return Ctx.current.sqrt_rational(Fraction(a)) ** b.numerator
    if isinstance(b, X):
        g = b.ground()
        if g is not None:
            return vt_pow(a, g)
    return a ** b


# ---------------------------------------------------------------- formal linear combinations

class Lin:
    """sum_k coef_k * term_k ; term = tuple of atom names; kind 'vec' (last atom is a vector) or 'mat'.
    Products are non-commutative, linear in each factor.  Supports scalar*Lin, Lin +/- Lin, Mat @ Vec,
    Mat @ Mat, Lin / scalar, -Lin.  Equality = all coefficients identical in the exact field."""
    __array_priority__ = 2000

    def __init__(self, kind: str, terms: dict | None = None):
        self.kind = kind
        self.terms = {k: v for k, v in (terms or {}).items()}

    @staticmethod
    def atom(kind, name):
        return Lin(kind, {(name,): Fraction(1)})

    def _clean(self):
        self.terms = {k: v for k, v in self.terms.items() if not _is0(v)}
        return self

    def _addsub(self, o, sgn):
        if isinstance(o, (int, Fraction)) and o == 0:
            return self
        if not isinstance(o, Lin):
            return NotImplemented
        if o.kind != self.kind:
            raise Unsupported(f"adding {self.kind} and {o.kind}")
        t = dict(self.terms)
        for k, v in o.terms.items():
            t[k] = (t[k] + sgn * v) if k in t else sgn * v
        return Lin(self.kind, t)._clean()

    def __add__(self, o): return self._addsub(o, 1)
    def __radd__(self, o): return self._addsub(o, 1)
    def __sub__(self, o): return self._addsub(o, -1)

    def __rsub__(self, o):
        if isinstance(o, (int, Fraction)) and o == 0:
            return -self
        return NotImplemented

    def __neg__(self):
        return Lin(self.kind, {k: -v for k, v in self.terms.items()})

    def _scale(self, s):
        if isinstance(s, (int, Fraction, X)) and not isinstance(s, bool):
            return Lin(self.kind, {k: v * s for k, v in self.terms.items()})._clean()
        return NotImplemented

    def __mul__(self, o): return self._scale(o)
    def __rmul__(self, o): return self._scale(o)

    def __truediv__(self, o):
        if isinstance(o, (int, Fraction, X)) and not isinstance(o, bool):
            inv = Fraction(1) / o
            return Lin(self.kind, {k: v * inv for k, v in self.terms.items()})._clean()
        return NotImplemented

    def __matmul__(self, o):
        if not isinstance(o, Lin) or self.kind != "mat":
            return NotImplemented
        t = {}
        for k1, v1 in self.terms.items():
            for k2, v2 in o.terms.items():
                k = k1 + k2
                t[k] = (t[k] + v1 * v2) if k in t else v1 * v2
        return Lin(o.kind, t)._clean()

    def dot(self, o):
        return self.__matmul__(o)

    def copy(self):
        return Lin(self.kind, dict(self.terms))

    @property
    def shape(self):
        return ("n", 1) if self.kind == "vec" else ("n", "n")

    def iszero(self):
        return all(_is0(v) for v in self.terms.values())

    def __eq__(self, o):
        if isinstance(o, Lin):
            d = self - o
            return d.iszero()
        if isinstance(o, (int, Fraction)) and o == 0:
            return self.iszero()
        return NotImplemented

    def __hash__(self):
        return id(self)

    def coef(self, *term):
        return self.terms.get(tuple(term), 0)

    def __repr__(self):
        return " + ".join(f"({v})*{'@'.join(k)}" for k, v in self.terms.items()) or "0"


def _is0(v):
    if isinstance(v, X):
        return v.c.iszero(v)
    return v == 0
