"""B-tier: run the REAL EasyFEA code natively on exact values.

`install(ctx)` (call it inside the forked obligation process; nothing is restored):
  * the `np` global of the listed EasyFEA modules is replaced by the numpy model `npshim.NP`
    (allocators -> object arrays of exact scalars, sqrt/abs/linalg on exact scalars, ...);
  * `Gauss.coord` / `Gauss.weights` return the same float values lifted to exact rationals
    (the code's own points, read exactly);
  * the shape-function tables of every element class (`_N`, `_dN`, ... , `_Hermitian_*`,
    `Get_Local_Coords`) are replaced by the versions re-assembled from the AST with exact
    literals (so that 1/3 is 1/3 and partition of unity holds identically);
  * `@cache_computed_values` keeps working (it is part of the code under test).
Everything else is the ordinary imported code of the working tree.
"""
from __future__ import annotations

import importlib
from fractions import Fraction

import numpy as _np

from . import npshim
from .alg import Ctx, X
from .core import Unsupported

MODULES = [
    "EasyFEA.FEM._group_elem", "EasyFEA.FEM._linalg", "EasyFEA.FEM._gauss", "EasyFEA.FEM._mesh", "EasyFEA.FEM._field",
    "EasyFEA.FEM._forms", "EasyFEA.FEM._boundary_conditions",
    "EasyFEA.FEM.Operators.Bilinear", "EasyFEA.FEM.Operators.Linear", "EasyFEA.FEM.Operators.NonLinear",
    "EasyFEA.FEM.Elems._beam", "EasyFEA.FEM.Elems._seg", "EasyFEA.FEM.Elems._tri", "EasyFEA.FEM.Elems._quad",
    "EasyFEA.FEM.Elems._tetra", "EasyFEA.FEM.Elems._hexa", "EasyFEA.FEM.Elems._prism", "EasyFEA.FEM.Elems._point",
    "EasyFEA.Models._utils", "EasyFEA.Models.Elastic._laws", "EasyFEA.Models._thermal", "EasyFEA.Models.Beam._beam",
    "EasyFEA.Models._phasefield", "EasyFEA.Models.HyperElastic._laws", "EasyFEA.Models.HyperElastic._state",
    "EasyFEA.Simulations._simu", "EasyFEA.Simulations._elastic", "EasyFEA.Simulations._thermal", "EasyFEA.Simulations._beam",
    "EasyFEA.Simulations._weakforms", "EasyFEA.Geoms._utils", "EasyFEA.Utilities._params",
]


class _FloatShadow:
    """module-global `float` replacement letting exact scalars through (e.g. float(Wdef_e.sum()))."""

    def __call__(self, v=0.0):
        if isinstance(v, (X, Fraction)):
            return v
        if isinstance(v, _np.ndarray) and v.dtype == object and v.ndim == 0:
            return v.item()
        return float(v)

    def __instancecheck__(self, inst):
        return isinstance(inst, float)


def lift_array(NPs, a):
    return NPs._obj(_np.asarray(a))


def install(ctx: Ctx, floats="exact", scalar="fraction", exact_tables=True, modules=None, shadow_float=("EasyFEA.Simulations._elastic",
                                                                                               "EasyFEA.Simulations._simu"),
            gauss="float"):
    """gauss='float': the quadrature tables are computed by the unmodified _gauss.py in floats and read as exact rationals
    (the code's own points); gauss='algebraic': np.sqrt inside _gauss.py is exact (slower, radicals in every entry)."""
    if modules is None and gauss == "float":
        modules = [m for m in MODULES if m != "EasyFEA.FEM._gauss"]
    NPs = npshim.NP(ctx, floats=floats)
    NPs._scalar = scalar
    ctx.floats = floats
    patched = []
    for m in (modules or MODULES):
        try:
            mod = importlib.import_module(m)
        except Exception:
            continue
        if hasattr(mod, "np"):
            mod.np = NPs
            patched.append(m)
    for m in shadow_float:
        try:
            importlib.import_module(m).float = _FloatShadow()
        except Exception:
            pass
    # Gauss points / weights: same values, exact
    from EasyFEA.FEM._gauss import Gauss
    if not getattr(Gauss, "_vt_patched", False):
        _coord, _weights = Gauss.coord, Gauss.weights
        Gauss.coord = property(lambda self: lift_array(NPs, _coord.fget(self)))
        Gauss.weights = property(lambda self: lift_array(NPs, _weights.fget(self)))
        Gauss._vt_patched = True
    if exact_tables:
        _install_exact_tables()
    NPs.patched_modules = patched
    return NPs


_TABLES = ["_N", "_dN", "_ddN", "_dddN", "_ddddN", "Get_Local_Coords", "_Hermitian_N", "_Hermitian_dN", "_Hermitian_ddN", "_Hermitian_dddN"]


def _install_exact_tables():
    import sys
    sys.path.insert(0, __import__("os").path.dirname(__import__("os").path.dirname(__file__)))
    from contracts import common
    from EasyFEA.FEM import Elems
    for et in common.LAGRANGE + common.HERMITE + ["TIMOSHENKO2", "TIMOSHENKO3", "TIMOSHENKO4", "TIMOSHENKO5"]:
        real = None
        for modname in ("_seg", "_tri", "_quad", "_tetra", "_hexa", "_prism", "_beam"):
            mod = getattr(Elems, modname, None)
            if mod is not None and hasattr(mod, et):
                real = getattr(mod, et)
                break
        if real is None:
            continue
        try:
            inst = common.elem_instance(et)
        except Unsupported:
            continue
        for t in _TABLES:
            if hasattr(type(inst), t):
                def make(inst=inst, t=t):
                    def f(self, *a, **k):
                        out = getattr(inst, t)(*a, **k)
                        if t == "Get_Local_Coords":
                            return _np.array(out, dtype=object)
                        return out
                    return f
                setattr(real, t, make())
