"""SMT drivers: exact field elements -> z3 terms; positivity / implication queries; cvc5 fallback on unknown."""
from __future__ import annotations

import dataclasses
import os
import subprocess
import tempfile
import time
from fractions import Fraction

import z3

from .alg import Ctx, X


@dataclasses.dataclass
class Res:
    status: str          # proved | cex | unknown
    model: dict | None = None
    time: float = 0.0
    solver: str = "z3"
    detail: str = ""


def _vars(c: Ctx):
    vs = [z3.Real(n) for n in c.names + c.spare]
    return vs


def poly_to_z3(c: Ctx, p, vs):
    tot = z3.RealVal(0)
    for mon, coef in p.terms():
        t = z3.RealVal(f"{int(coef.numerator)}/{int(coef.denominator)}")
        for e, v in zip(mon, vs):
            for _ in range(e):
                t = t * v
        tot = tot + t
    return tot


def to_z3(c: Ctx, x, vs):
    if isinstance(x, (int, Fraction)):
        x = c.const(x)
    if isinstance(x, str):
        return vs[(c.names + c.spare).index(x)]
    return poly_to_z3(c, x.v.numer, vs), poly_to_z3(c, x.v.denom, vs)


def _rel(c, vs, lhs, op, rhs):
    def side(v):
        if isinstance(v, str):
            return vs[(c.names + c.spare).index(v)], z3.RealVal(1)
        if isinstance(v, (int, Fraction)):
            return z3.RealVal(str(Fraction(v))), z3.RealVal(1)
        return to_z3(c, v, vs)
    ln, ld = side(lhs)
    rn, rd = side(rhs)
    # compare ln/ld with rn/rd : multiply by (ld*rd)^2 > 0
    l = ln * ld * rd * rd
    r = rn * rd * ld * ld
    cons = [ld != 0, rd != 0]
    e = {">": l > r, ">=": l >= r, "<": l < r, "<=": l <= r, "==": l == r, "!=": l != r}[op]
    return e, cons


def radical_constraints(c: Ctx, vs):
    out = []
    for idx, k in c.rel.items():
        s = vs[idx]
        out.append(s * s == poly_to_z3(c, k, vs))
        out.append(s >= 0)
    return out


def check_implication(c: Ctx, assumptions, goal, timeout=30) -> Res:
    """assumptions: list of (lhs, op, rhs); goal: (lhs, op, rhs). Proves assumptions => goal."""
    t0 = time.time()
    vs = _vars(c)
    s = z3.Solver()
    s.set("timeout", int(timeout * 1000))
    for a in radical_constraints(c, vs):
        s.add(a)
    for (l, op, r) in assumptions:
        e, cons = _rel(c, vs, l, op, r)
        s.add(e)
        for k in cons:
            s.add(k)
    g, cons = _rel(c, vs, *goal)
    for k in cons:
        s.add(k)
    s.add(z3.Not(g))
    r = s.check()
    if r == z3.unsat:
        return Res("proved", None, time.time() - t0, "z3")
    if r == z3.sat:
        m = s.model()
        model = {}
        for n, v in zip(c.names, vs):
            val = m.eval(v, model_completion=True)
            try:
                model[n] = Fraction(val.numerator_as_long(), val.denominator_as_long())
            except Exception:
                try:
                    model[n] = Fraction(val.approx(20).numerator_as_long(), val.approx(20).denominator_as_long())
                except Exception:
                    model[n] = str(val)
        return Res("cex", model, time.time() - t0, "z3")
    # fallback: cvc5 binary on the same query
    try:
        smt2 = "(set-logic QF_NRA)\n" + s.to_smt2()
        with tempfile.NamedTemporaryFile("w", suffix=".smt2", delete=False) as f:
            f.write(smt2)
            fn = f.name
        try:
            out = subprocess.run(["/usr/bin/cvc5", "--nl-cov", f"--tlimit={int(timeout*1000)}", fn], capture_output=True, text=True,
                                 timeout=timeout + 5).stdout.strip()
        finally:
            os.unlink(fn)
        if out.startswith("unsat"):
            return Res("proved", None, time.time() - t0, "cvc5")
        return Res("unknown", None, time.time() - t0, "z3+cvc5", detail=out[:200])
    except Exception as e:
        return Res("unknown", None, time.time() - t0, "z3", detail=repr(e))


def prove_positive(c: Ctx, x: X, assumptions, timeout=30) -> Res:
    return check_implication(c, assumptions, (x, ">", 0), timeout)
