"""./check <ID> [--tier quick|thorough] [--replay file]"""
import argparse
import importlib
import json
import os
import sys

from . import core


def main():
    ap = argparse.ArgumentParser()
    ap.add_argument("prop")
    ap.add_argument("--tier", default=os.environ.get("VERIF_TIER", "quick"), choices=["quick", "thorough"])
    ap.add_argument("--replay", default=None)
    ap.add_argument("--only", default=None, help="substring filter on obligation ids (debugging; evidence still written)")
    ap.add_argument("--jobs", type=int, default=None)
    a = ap.parse_args()
    seed = int(os.environ.get("VERIF_SEED", "0") or 0)
    sys.path.insert(0, core.VERIF)
    try:
        mod = importlib.import_module(f"contracts.{a.prop}")
    except ModuleNotFoundError as e:
        print(f"no contract module for {a.prop}: {e}")
        return 3
    if a.replay:
        with open(a.replay) as f:
            rec = json.load(f)
        if hasattr(mod, "replay"):
            return mod.replay(rec)
        # generic replay: the recorded obligation is generated again from the current /repo source and decided again (exit 1 + VIOLATION line if it still fails);
        # the record itself (verifier output, counterexample, native replay) is printed first.  The evidence file is not touched.
        print(json.dumps({k: rec.get(k) for k in ("property", "obligation", "clause", "verifier_output", "counterexample", "native_replay")}, indent=1, default=str))
        spec = mod.build(rec.get("tier_run", a.tier) if rec.get("tier_run") in ("quick", "thorough") else "thorough", rec.get("seed", seed))
        obs = [o for o in spec.pop("obs") if o.id == rec.get("obligation")]
        if not obs:
            print(f"UNDECIDED property={a.prop} obligation={rec.get('obligation')} reason=the obligation is no longer generated")
            return 2
        spec["min_obligations"] = 0
        return core.run_property(a.prop, obs, tier=a.tier, seed=rec.get("seed", seed), jobs=1, write_evidence=False, **spec)
    try:
        spec = mod.build(a.tier, seed)
    except core.Unsupported as e:
        print(f"UNDECIDED property={a.prop} obligation=* reason=contract module could not be built: {e}")
        return 2
    obs = spec.pop("obs")
    if a.only:
        obs = [o for o in obs if a.only in o.id]
        spec["min_obligations"] = 0
    return core.run_property(a.prop, obs, tier=a.tier, seed=seed, jobs=a.jobs, **spec)


if __name__ == "__main__":
    sys.exit(main())
