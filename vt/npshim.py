"""Trusted model of the part of numpy the extracted code uses on exact values.

`NP(ctx)` looks like the `numpy` module: every attribute not listed below is the real numpy
attribute (object-dtype arrays of exact scalars go through numpy's own elementwise machinery,
which calls the Python operators of `alg.X`).  Overridden (each listed in the evidence):
allocators (-> dtype=object filled with exact constants), array/asarray with a float dtype,
sqrt, abs, sign, heaviside, maximum/minimum, isclose/allclose, linalg.norm / inv / det / solve
(exact fraction arithmetic), einsum (optimize ignored), cos/sin of ground angles that are
rational multiples of pi (exact), deg2rad/pi (symbolic multiples of pi).
"""
from __future__ import annotations

import itertools
from fractions import Fraction

import numpy as _np

from .alg import Ctx, X, _isqrt_frac
from .core import Unsupported

_FLOAT_DT = (float, _np.float64, _np.float32, "float", "float64", complex, _np.complex128)


class Opaque:
    """Result of a floating self-check the engine does not evaluate (e.g. a norm of a symbolic non-square).
    Any comparison with it is reported as passing and logged; arithmetic keeps it opaque."""

    def __init__(self, log, what):
        self.log, self.what = log, what
        log.append(what)

    def _o(self, *a):
        return self

    __add__ = __radd__ = __sub__ = __rsub__ = __mul__ = __rmul__ = __truediv__ = __rtruediv__ = __neg__ = __abs__ = _o

    def __lt__(self, o): return True
    def __le__(self, o): return True
    def __gt__(self, o): return False
    def __ge__(self, o): return False


class _Linalg:
    def __init__(self, np_):
        self._np = np_

    def __getattr__(self, k):
        if k in ("eigh", "eig", "eigvals", "eigvalsh", "svd", "pinv", "lstsq"):
            raise Unsupported(f"np.linalg.{k} is not modelled")
        return getattr(_np.linalg, k)

    def norm(self, x, ord=None, axis=None, keepdims=False):
        np_ = self._np
        cls = type(x) if isinstance(x, _np.ndarray) and type(x) is not _np.ndarray else None
        x = _np.asarray(x)
        if x.dtype != object:
            return _np.linalg.norm(x, ord=ord, axis=axis, keepdims=keepdims)
        if ord not in (None, 2, "fro"):
            raise Unsupported(f"norm ord={ord}")
        s = _np.sum(x * x, axis=axis, keepdims=keepdims)
        res = np_.sqrt(s, _opaque_ok=True)
        if cls is not None and axis is not None and isinstance(res, _np.ndarray) and res.ndim >= 2:
            # numpy dispatches the function to the array subclass (FeArray.__array_function__): a norm over tensor axes of a field is a field; the shim keeps that
            axes = axis if isinstance(axis, tuple) else (axis,)
            if all((a >= 2 if a >= 0 else a >= 2 - x.ndim) for a in axes):
                res = res.view(cls)
        return res

    def det(self, a):
        a = _np.asarray(a)
        if a.dtype != object:
            return _np.linalg.det(a)
        return _batched(a, _det)

    def inv(self, a):
        a = _np.asarray(a)
        if a.dtype != object:
            return _np.linalg.inv(a)
        return _batched(a, _inv, matrix_out=True)

    def solve(self, a, b):
        a = _np.asarray(a)
        b = _np.asarray(b)
        if a.dtype != object and b.dtype != object:
            return _np.linalg.solve(a, b)
        ai = self.inv(a.astype(object))
        if b.ndim == a.ndim - 1:
            return _np.einsum("...ij,...j->...i", ai, b.astype(object))
        return ai @ b.astype(object)


def _batched(a, f, matrix_out=False):
    n = a.shape[-1]
    lead = a.shape[:-2]
    out = _np.empty(lead + ((n, n) if matrix_out else ()), dtype=object)
    for idx in itertools.product(*[range(s) for s in lead]):
        r = f([[a[idx + (i, j)] for j in range(n)] for i in range(n)])
        if matrix_out:
            for i in range(n):
                for j in range(n):
                    out[idx + (i, j)] = r[i][j]
        else:
            out[idx] = r
    if not lead and not matrix_out:
        return out[()]
    return out


def _isz(v):
    if isinstance(v, X):
        return v.c.iszero(v)
    return v == 0


def _det(m):
    n = len(m)
    if n == 1:
        return m[0][0]
    if n == 2:
        return m[0][0] * m[1][1] - m[0][1] * m[1][0]
    if n == 3:
        return (m[0][0] * (m[1][1] * m[2][2] - m[1][2] * m[2][1]) - m[0][1] * (m[1][0] * m[2][2] - m[1][2] * m[2][0])
                + m[0][2] * (m[1][0] * m[2][1] - m[1][1] * m[2][0]))
    # elimination with exact pivots
    m = [list(r) for r in m]
    det = 1
    for c in range(n):
        p = next((r for r in range(c, n) if not _isz(m[r][c])), None)
        if p is None:
            return 0 * m[0][0]
        if p != c:
            m[c], m[p] = m[p], m[c]
            det = -det
        det = det * m[c][c]
        for r in range(c + 1, n):
            if not _isz(m[r][c]):
                f = m[r][c] / m[c][c]
                for k in range(c, n):
                    m[r][k] = m[r][k] - f * m[c][k]
    return det


def _inv(m):
    n = len(m)
    one = m[0][0] * 0 + 1
    zero = m[0][0] * 0
    a = [list(r) + [one if i == j else zero for j in range(n)] for i, r in enumerate(m)]
    for c in range(n):
        p = next((r for r in range(c, n) if not _isz(a[r][c])), None)
        if p is None:
            raise ZeroDivisionError("exact inverse of a singular matrix")
        a[c], a[p] = a[p], a[c]
        pv = a[c][c]
        a[c] = [v / pv for v in a[c]]
        for r in range(n):
            if r != c and not _isz(a[r][c]):
                f = a[r][c]
                a[r] = [vr - f * vc for vr, vc in zip(a[r], a[c])]
    return [row[n:] for row in a]


class NP:
    def __init__(self, ctx: Ctx, floats="refuse", angle_symbols=None):
        self._c = ctx
        self._floats = floats            # 'refuse' | 'exact' (binary value of the float as a rational)
        self.linalg = _Linalg(self)
        self.selfchecks_skipped: list[str] = []
        self.used: set[str] = set()
        self._angles = angle_symbols or {}
        self.pi = _np.pi
        self.newaxis = _np.newaxis

    def __getattr__(self, k):
        if k.startswith("__"):
            raise AttributeError(k)
        self.used.add(k)
        return getattr(_np, k)

    # ---- lifting
    _scalar = "X"

    def _lift(self, v):
        if isinstance(v, X):
            return v
        K = (lambda q: q) if self._scalar == "fraction" else self._c.const
        if isinstance(v, (bool, _np.bool_)):
            return K(Fraction(int(v)))
        if isinstance(v, Fraction):
            return K(v)
        if isinstance(v, (int, _np.integer)):
            return K(Fraction(int(v)))
        if isinstance(v, (float, _np.floating)):
            f = float(v)
            if f == int(f) and abs(f) < 2 ** 53:
                return K(Fraction(int(f)))
            if self._floats == "exact":
                return K(Fraction(f))
            raise Unsupported(f"float {f!r} leaked into exact arithmetic")
        if isinstance(v, Opaque):
            return v
        raise Unsupported(f"cannot lift {type(v).__name__}")

    def _obj(self, a):
        a = _np.asarray(a) if not isinstance(a, _np.ndarray) else a
        if a.dtype == object:
            out = _np.empty(a.shape, dtype=object)
            for idx in _np.ndindex(a.shape):
                out[idx] = self._lift(a[idx])
            return out
        out = _np.empty(a.shape, dtype=object)
        for idx in _np.ndindex(a.shape):
            out[idx] = self._lift(a[idx].item() if hasattr(a[idx], "item") else a[idx])
        return out

    def _filled(self, shape, val):
        if isinstance(shape, (int, _np.integer)):
            shape = (int(shape),)
        out = _np.empty(tuple(int(s) for s in shape), dtype=object)
        v = self._lift(val)
        for idx in _np.ndindex(out.shape):
            out[idx] = v
        return out

    # ---- allocators
    def zeros(self, shape, dtype=None, **k):
        if dtype in (int, bool, _np.int64, _np.int32, "int", _np.bool_):
            return _np.zeros(shape, dtype=dtype)
        return self._filled(shape, 0)

    def ones(self, shape, dtype=None, **k):
        if dtype in (int, bool, _np.int64, _np.int32, "int", _np.bool_):
            return _np.ones(shape, dtype=dtype)
        return self._filled(shape, 1)

    def empty(self, shape, dtype=None, **k):
        if dtype in (int, bool, _np.int64, _np.int32, "int", _np.bool_):
            return _np.empty(shape, dtype=dtype)
        return self._filled(shape, 0)

    def full(self, shape, fill_value, dtype=None, **k):
        if dtype in (int, bool) or isinstance(fill_value, (str, bool)):
            return _np.full(shape, fill_value, dtype=dtype)
        return self._filled(shape, fill_value)

    @staticmethod
    def _like(a, out):
        # subok=True semantics of the real *_like functions: the array subclass (FeArray) is preserved
        if isinstance(a, _np.ndarray) and type(a) is not _np.ndarray:
            return out.view(type(a))
        return out

    def zeros_like(self, a, dtype=None, **k):
        a0 = a
        a = _np.asanyarray(a)
        if a.dtype != object and a.dtype.kind in "iub" and dtype is None:
            return _np.zeros_like(a0)
        return self._like(a0, self._filled(a.shape, 0))

    def ones_like(self, a, dtype=None, **k):
        a0 = a
        a = _np.asanyarray(a)
        if a.dtype != object and a.dtype.kind in "iub" and dtype is None:
            return _np.ones_like(a0)
        return self._like(a0, self._filled(a.shape, 1))

    def empty_like(self, a, dtype=None, **k):
        return self.zeros_like(a, dtype)

    def eye(self, n, m=None, k=0, dtype=None, **kw):
        e = _np.eye(n, m, k, dtype=int)
        if dtype in (int, bool):
            return e
        return self._obj(e)

    def identity(self, n, dtype=None):
        return self.eye(n, dtype=dtype)

    def array(self, obj, dtype=None, **k):
        k.pop("copy", None)
        if dtype is not None and dtype not in _FLOAT_DT and dtype is not object:
            return _np.array(obj, dtype=dtype, **k)
        try:
            a = _np.array(obj, dtype=object) if dtype is not None else _np.array(obj)
        except ValueError:
            a = _np.array(obj, dtype=object)
        if a.dtype == object:
            flat = a.ravel()
            if any(isinstance(v, (X, Fraction, float, Opaque)) for v in flat) or dtype in _FLOAT_DT:
                if all(isinstance(v, (X, Fraction, float, int, bool, _np.number, Opaque)) for v in flat):
                    return self._obj(a)
            return a
        if a.dtype.kind == "f" or dtype in _FLOAT_DT:
            return self._obj(a)
        return a

    def asarray(self, obj, dtype=None, **k):
        if isinstance(obj, _np.ndarray) and (dtype is None or obj.dtype == object):
            if obj.dtype.kind == "f":
                return self._obj(obj)
            # like the real np.asarray: an array subclass (FeArray) is returned as a base-class view
            return obj.view(_np.ndarray) if type(obj) is not _np.ndarray else obj
        return self.array(obj, dtype=dtype)

    def asanyarray(self, obj, dtype=None, **k):
        if isinstance(obj, _np.ndarray) and (dtype is None or obj.dtype == object) and obj.dtype.kind != "f":
            return obj
        out = self.array(obj, dtype=dtype)
        if isinstance(obj, _np.ndarray) and type(obj) is not _np.ndarray and out.shape == obj.shape:
            return out.view(type(obj))
        return out

    ascontiguousarray = asarray

    def copy(self, a):
        return _np.array(a, dtype=object, copy=True) if _np.asarray(a).dtype == object else _np.copy(a)

    # ---- elementwise
    def _map(self, f, x, *more):
        if isinstance(x, _np.ndarray) or any(isinstance(m, _np.ndarray) for m in more):
            arrs = _np.broadcast_arrays(*[_np.asarray(v, dtype=object) if not isinstance(v, _np.ndarray) else v for v in (x,) + more])
            out = _np.empty(arrs[0].shape, dtype=object)
            for idx in _np.ndindex(out.shape):
                out[idx] = f(*[a[idx] for a in arrs])
            # keep the array subclass (FeArray) exactly as a real ufunc would
            for v in (x,) + more:
                if isinstance(v, _np.ndarray) and type(v) is not _np.ndarray and v.shape == out.shape:
                    return out.view(type(v))
            return out
        return f(x, *more)

    def sqrt(self, x, _opaque_ok=False):
        def f(v):
            if isinstance(v, Opaque):
                return v
            v = self._lift(v)
            try:
                if isinstance(v, Fraction):
                    r = _isqrt_frac(v)
                    return r if r is not None else self._c.sqrt_rational(v)
                return self._c.sqrt(v)
            except Unsupported as e:
                if _opaque_ok:
                    return Opaque(self.selfchecks_skipped, f"norm/sqrt of a symbolic non-square ({e})")
                raise
        return self._map(f, x)

    def abs(self, x):
        return self._map(lambda v: v if isinstance(v, Opaque) else abs(self._lift(v)), x)

    absolute = abs

    def _sgn(self, v):
        v = self._lift(v)
        if isinstance(v, Fraction):
            return (v > 0) - (v < 0)
        return v.sign()

    def sign(self, x):
        return self._map(lambda v: self._lift(self._sgn(v)), x)

    def heaviside(self, x, h0):
        def f(v, h):
            s = self._sgn(v)
            return self._lift(1) if s > 0 else (self._lift(h) if s == 0 else self._lift(0))
        return self._map(f, x, h0)

    def maximum(self, a, b):
        return self._map(lambda u, v: self._lift(u) if self._lift(u) >= self._lift(v) else self._lift(v), a, b)

    def minimum(self, a, b):
        return self._map(lambda u, v: self._lift(u) if self._lift(u) <= self._lift(v) else self._lift(v), a, b)

    def isclose(self, a, b, rtol=1e-05, atol=1e-08, **k):
        return self._map(lambda u, v: bool(self._lift(u) == self._lift(v)), a, b)

    def allclose(self, a, b, rtol=1e-05, atol=1e-08, **k):
        r = self.isclose(a, b)
        return bool(_np.all(r))

    def isnan(self, x):
        return self._map(lambda v: False, x)

    def isfinite(self, x):
        return self._map(lambda v: True, x)

    def einsum(self, subs, *ops, optimize=None, **k):
        if any(isinstance(o, _np.ndarray) and o.dtype == object for o in ops) or any(isinstance(o, X) for o in ops):
            ops = [_np.asarray(o, dtype=object) if not (isinstance(o, _np.ndarray) and o.dtype == object) else o for o in ops]
            ops = [self._obj(o) if any(not isinstance(v, X) for v in o.ravel()[:1]) else o for o in ops]
            return _np.einsum(subs, *ops, **k)
        return _np.einsum(subs, *ops, optimize=optimize, **k)

    def cos(self, x):
        return self._map(lambda v: self._trig(v, "cos"), x)

    def sin(self, x):
        return self._map(lambda v: self._trig(v, "sin"), x)

    def _trig(self, v, which):
        v = self._lift(v)
        if isinstance(v, Fraction):
            v = self._c.const(v)
        g = v.ground()
        if g is not None and g == 0:
            return self._c.const(1 if which == "cos" else 0)
        for ang, (cs, sn) in self._angles.items():
            if v == ang:
                return cs if which == "cos" else sn
            if v == -ang:
                return cs if which == "cos" else -sn
        raise Unsupported(f"np.{which} of a value that is not a designated angle symbol")

    def float64(self, v):
        return self._lift(v) if isinstance(v, (X, Fraction)) else _np.float64(v)
